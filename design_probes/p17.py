import time, collections, copy, pickle, math, faulthandler; faulthandler.dump_traceback_later(280, exit=True)
import pyglove as pg
from famil import *
from hypothesis import given, settings, strategies as st, seed, HealthCheck, Phase
leaf = st.one_of(st.none(), st.booleans(), st.integers(-3, 3), st.sampled_from([0.5, -0.0, float('inf'), 2.0]), st.sampled_from(['', 'a', 'b', 'a.b', '\x00', ' ', 'é']))
keys = st.sampled_from(['k', 'm', 'n', 'a.b', '0', 0, 1, -1])
def ext(c):
    return st.one_of(
        st.lists(c, max_size=3).map(lambda v: ('list', v)),
        st.lists(c, max_size=3).map(lambda v: ('tuple', v)),
        st.dictionaries(keys, c, max_size=3).map(lambda v: ('dict', list(v.items()))),
        st.tuples(st.sampled_from(['P', 'Q', 'R']), c, c).map(lambda t: ('obj',) + t),
        st.tuples(st.integers(0, 9), st.sampled_from(['a', 'b']), st.sampled_from(['p', 'q', None]), st.lists(st.integers(-2, 2), max_size=3), st.one_of(st.none(), st.integers(0, 3))).map(lambda t: ('typed',) + t),
    )
desc = st.recursive(leaf.map(lambda v: ('leaf', v)), ext, max_leaves=10)
def build(d):
    k = d[0]
    if k == 'leaf': return d[1]
    if k == 'list': return pg.List([build(x) for x in d[1]])
    if k == 'tuple': return tuple(build(x) for x in d[1])
    if k == 'dict': return pg.Dict({kk: build(v) for kk, v in d[1]})
    if k == 'obj': return {'P': P, 'Q': Q, 'R': R}[d[1]](x=build(d[2]), y=build(d[3]))
    if k == 'typed': return Typed(i=d[1], s=d[2], e=d[3], l=d[4], d={'k': d[5]})
sigs = collections.Counter(); ex = {}; stats = collections.Counter()
def rec(key, *info):
    sigs[key] += 1; ex.setdefault(key, info)
@seed(5)
@settings(max_examples=2500, deadline=None, database=None, suppress_health_check=list(HealthCheck), phases=[Phase.generate])
@given(desc, desc, desc)
def test(da, db, dc):
    stats['n'] += 1
    vals = [build(da), build(db), build(dc)]
    # C05
    v = vals[0]
    for form, rt in [('obj', lambda x: pg.from_json(pg.to_json(x))), ('str', lambda x: pg.from_json_str(pg.to_json_str(x))), ('pickle', lambda x: pickle.loads(pickle.dumps(x))), ('deepcopy', copy.deepcopy)]:
        try:
            w = rt(v)
        except Exception as e:
            rec(('C05', form, 'raises', type(e).__name__), da, str(e)[:80]); continue
        if not pg.eq(v, w): rec(('C05', form, 'ne'), da, repr(v)[:80], repr(w)[:80])
        elif type(v) is not type(w) and not (isinstance(v, (list, dict)) ): rec(('C05', form, 'type'), da)
        else:
            try:
                if pg.hash(v) != pg.hash(w): rec(('C05', form, 'hash'), da)
            except TypeError: pass
    # C06
    for a in vals:
        try:
            if not pg.eq(a, a) or pg.ne(a, a): rec(('C06', 'reflexive'), repr(a)[:80])
        except Exception as e: rec(('C06', 'eq-raises', type(e).__name__), repr(a)[:80])
    for a in vals:
        for b in vals:
            try:
                e1, e2 = pg.eq(a, b), pg.eq(b, a)
            except Exception as e:
                rec(('C06', 'eq-raises', type(e).__name__), repr(a)[:60], repr(b)[:60]); continue
            if e1 != e2: rec(('C06', 'symmetric'), repr(a)[:60], repr(b)[:60])
            if e1:
                try:
                    if pg.hash(a) != pg.hash(b): rec(('C06', 'hash', type(a).__name__, type(b).__name__), repr(a)[:60], repr(b)[:60])
                except TypeError: pass
            try:
                l1, l2 = pg.lt(a, b), pg.lt(b, a)
            except Exception as e:
                rec(('C06', 'lt-raises', type(e).__name__, type(a).__name__, type(b).__name__), repr(a)[:60], repr(b)[:60]); continue
            if [l1, e1, l2].count(True) != 1: rec(('C06', 'trichotomy', type(a).__name__, type(b).__name__, (l1, e1, l2)), repr(a)[:60], repr(b)[:60])
    # C07
    v = vals[1]
    if isinstance(v, pg.Symbolic):
        for deep in (True, False):
            try: c = v.clone(deep=deep)
            except Exception as e: rec(('C07', 'clone-raises', deep, type(e).__name__), db, str(e)[:80]); continue
            if not pg.eq(v, c): rec(('C07', 'ne', deep), db)
            ids = set()
            def walk(n, acc):
                acc.add(id(n))
                for _, ch in n.sym_items():
                    if isinstance(ch, pg.Symbolic): walk(ch, acc)
            a1, a2 = set(), set(); walk(v, a1); walk(c, a2)
            if a1 & a2: rec(('C07', 'shared-node', deep), db)
t0 = time.time(); test(); print('time', time.time() - t0, stats)
for k, c in sigs.most_common(): print(c, k, str(ex.get(k))[:300])
