import time, collections, copy, random, itertools, faulthandler; faulthandler.dump_traceback_later(280, exit=True)
import pyglove as pg
from famil import *
from hypothesis import given, settings, strategies as st, seed, HealthCheck, Phase
cnt = itertools.count()
def tmpl():
    const = st.builds(lambda: f'c{next(cnt)}')   # unique distinguishable constants
    def ext(c):
        cands = st.lists(c, min_size=1, max_size=3)
        return st.one_of(
            cands.map(lambda v: ('oneof', v)),
            st.tuples(st.integers(1, 3), cands, st.booleans(), st.booleans()).map(lambda t: ('manyof',) + t),
            st.just(('float',)),
            st.lists(c, min_size=1, max_size=3).map(lambda v: ('list', v)),
            st.dictionaries(st.sampled_from(['k', 'm', 'a.b']), c, min_size=1, max_size=3).map(lambda v: ('dict', list(v.items()))),
            st.tuples(c, c).map(lambda t: ('obj',) + t),
        )
    return st.recursive(const.map(lambda v: ('const', v)), ext, max_leaves=8)
def build(d):
    k = d[0]
    if k == 'const': return d[1]
    if k == 'oneof': return pg.oneof([build(x) for x in d[1]])
    if k == 'manyof': return pg.manyof(d[1], [build(x) for x in d[2]], distinct=d[3], sorted=d[4])
    if k == 'float': return pg.floatv(0.0, 1.0)
    if k == 'list': return pg.List([build(x) for x in d[1]])
    if k == 'dict': return pg.Dict({kk: build(v) for kk, v in d[1]})
    if k == 'obj': return P(x=build(d[1]), y=build(d[2]))
def ref_decode(d, nums):
    """Reference substitution: consumes flat numbers (list, popped from front)."""
    k = d[0]
    if k == 'const': return d[1]
    if k == 'oneof':
        i = nums.pop(0); return ref_decode(d[1][i], nums)
    if k == 'manyof':
        out = []
        for _ in range(d[1]):
            i = nums.pop(0); out.append(ref_decode(d[2][i], nums))
        return out
    if k == 'float': return nums.pop(0)
    if k == 'list': return [ref_decode(x, nums) for x in d[1]]
    if k == 'dict': return {kk: ref_decode(v, nums) for kk, v in d[1]}
    if k == 'obj': return ('P', ref_decode(d[1], nums), ref_decode(d[2], nums))
def plain(v):
    if isinstance(v, P): return ('P', plain(v.sym_getattr('x')), plain(v.sym_getattr('y')))
    if isinstance(v, list): return [plain(x) for x in v]
    if isinstance(v, dict): return {k: plain(x) for k, x in v.items()}
    return v
sigs = collections.Counter(); ex = {}; stats = collections.Counter()
def rec(key, *info): sigs[key] += 1; ex.setdefault(key, info)
@seed(7)
@settings(max_examples=800, deadline=None, database=None, suppress_health_check=list(HealthCheck), phases=[Phase.generate])
@given(tmpl(), st.integers(0, 10**6))
def test(d, s):
    try: v = build(d)
    except ValueError as e: stats['build-fail'] += 1; return
    if pg.is_deterministic(v): stats['const'] += 1; return
    stats['n'] += 1
    t = pg.template(v)
    before = pg.to_json_str(v)
    spec = t.dna_spec()
    rnd = random.Random(s)
    dnas = list(itertools.islice(spec.iter_dna(), 6)) if spec.space_size != -1 else []
    dnas += [pg.random_dna(spec, rnd) for _ in range(4)]
    for dna in dnas:
        try: out = t.decode(dna)
        except Exception as e: rec(('decode-raises', type(e).__name__), d, dna.to_numbers(), str(e)[:100]); continue
        if not pg.is_deterministic(out): rec(('not-deterministic',), d)
        exp = ref_decode(d, list(dna.to_numbers()))
        if plain(out) != exp: rec(('shape',), d, dna.to_numbers(), repr(plain(out))[:100], repr(exp)[:100])
        try:
            enc = t.encode(out)
            if enc != dna: rec(('encode-ne',), d, dna.to_numbers(), enc.to_numbers())
        except Exception as e: rec(('encode-raises', type(e).__name__), d, dna.to_numbers(), str(e)[:120])
        if pg.to_json_str(v) != before: rec(('template-mutated',), d)
    if spec.space_size != -1 and spec.space_size <= 60:
        vals = list(pg.iter(v))
        if len(vals) != spec.space_size: rec(('iter-count',), d, len(vals), spec.space_size)
        for a, b in itertools.combinations(vals, 2):
            if pg.eq(a, b): rec(('iter-dup',), d, repr(a)[:80]); break
t0 = time.time(); test(); print('time', time.time() - t0, stats)
for k, c in sigs.most_common(): print(c, k, str(ex.get(k))[:500])
