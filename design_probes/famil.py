import pyglove as pg
T = pg.typing
class Opaque:
    def __init__(self, v): self.v = v
class P(pg.Object):
    x: T.Any() = None
    y: T.Any() = None
class Q(P):
    pass
class R(P):
    z: T.Any() = 0
class Typed(pg.Object):
    i: T.Int(min_value=0, max_value=9) = 1
    s: T.Str() = 'a'
    e: T.Enum('p', ['p', 'q', None]) = 'p'
    l: T.List(T.Int(), max_size=3) = []
    d: T.Dict([('k', T.Int().noneable()), (T.StrKey('u.*'), T.Str())]) = {}
    t: T.Tuple([T.Int(), T.Str()]).noneable() = None
    o: T.Object(P).noneable() = None
    u: T.Union([T.Int(), T.Str(), T.List(T.Any())]).noneable() = None
