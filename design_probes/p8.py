import pyglove as pg, inspect
def show(label, f):
    try:
        r = f(); print(label, '=>', repr(r)[:200])
    except Exception as e:
        print(label, 'RAISES', type(e).__name__, str(e)[:120].replace('\n',' '))
def f(a, b=2, *args, c, d=4, **kw):
    return (a, b, args, c, d, tuple(sorted(kw.items())))
F = pg.functor()(f)
show('sig init', lambda: str(inspect.signature(F.__init__)))
show('full', lambda: F(1, 2, 3, 4, c=5, e=6)())
show('ref ', lambda: f(1, 2, 3, 4, c=5, e=6))
show('partial then call', lambda: F(1, c=3)(d=9))
show('ref', lambda: f(1, c=3, d=9))
show('late positional', lambda: F(c=3)(1, 5))
show('ref', lambda: f(1, 5, c=3))
show('missing', lambda: F(1)())
show('ref', lambda: f(1))
show('override no', lambda: F(1, c=3)(2))
show('override yes', lambda: F(1, c=3, override_args=True)(2))
show('unknown kw no varkw', lambda: pg.functor()(lambda a: a)(1, z=2))
show('dup', lambda: F(1, a=2, c=1))
show('ref', lambda: f(1, a=2, c=1))
show('sym_init_args', lambda: F(1, 2, 3, c=5, e=6).sym_init_args)
show('clone call', lambda: F(1, 2, 3, c=5, e=6).clone()())
show('json call', lambda: pg.from_json(F(1, 2, 3, c=5, e=6).to_json())())
show('varargs late', lambda: F(1, 2, c=5)(  ) )
show('varargs prebound+late', lambda: F(1, 2, 7, c=5)(override_args=True))
def g(a, /, b): return (a, b)
show('posonly', lambda: pg.functor()(g)(1, 2)())
show('posonly kw', lambda: pg.functor()(g)(a=1, b=2)())
show('ref posonly kw', lambda: g(a=1, b=2))
# symbolize class
@pg.symbolize
class K:
    def __init__(self, x, y=2, *rest, z, **kw):
        self.t = (x, y, rest, z, tuple(sorted(kw.items())))
show('cls', lambda: K(1, 2, 3, z=4, q=5).t)
show('cls missing', lambda: K(1).t)
show('cls sig', lambda: str(inspect.signature(K.__init__)))
show('cls rebind', lambda: K(1, z=2).rebind(x=5).t)
show('cls json', lambda: pg.from_json(K(1, 2, 3, z=4, q=5).to_json()).t)
# annotations
def h(a: int, b: str = 'x'): return (a, b)
H = pg.functor()(h)
show('annot bad', lambda: H('s')())
show('annot float->int', lambda: H(1.5)())
show('annot int ok', lambda: H(1)())
