import time, collections, copy, random, faulthandler; faulthandler.dump_traceback_later(250, exit=True)
import pyglove as pg
from pyglove.ext import evolution as ev
from hypothesis import given, settings, strategies as st, seed, HealthCheck, Phase
G = pg.geno
def spec_st():
    leaf = st.just(('const',))
    def ext(c):
        cands = st.lists(c, min_size=1, max_size=3)
        return st.one_of(
            st.tuples(st.just('space'), st.lists(st.one_of(
                st.tuples(st.just('oneof'), cands),
                st.tuples(st.just('manyof'), st.integers(1, 3), cands, st.booleans(), st.booleans()),
                st.just(('float',))), min_size=1, max_size=3)))
    return st.recursive(leaf, ext, max_leaves=8)
cnt = [0]
def build(d, loc=''):
    k = d[0]
    if k == 'const': return G.constant()
    if k == 'space':
        els = []
        for i, e in enumerate(d[1]):
            cnt[0] += 1; l = f'e{cnt[0]}'
            if e[0] == 'oneof': els.append(G.oneof([build(c) for c in e[1]], location=l))
            elif e[0] == 'manyof': els.append(G.manyof(e[1], [build(c) for c in e[2]], distinct=e[3], sorted=e[4], location=l))
            else: els.append(G.floatv(0.0, 1.0, location=l))
        return G.space(els)
OPS = {
  'm.Uniform': lambda s: ev.mutators.Uniform(seed=s), 'm.Swap': lambda s: ev.mutators.Swap(seed=s),
  'r.Uniform': lambda s: ev.recombinators.Uniform(seed=s), 'r.Sample': lambda s: ev.recombinators.Sample(weights=lambda xs: [1.0]*len(xs), seed=s),
  'r.Average': lambda s: ev.recombinators.Average(), 'r.KPoint': lambda s: ev.recombinators.KPoint(2, seed=s),
  'r.PMX': lambda s: ev.recombinators.PartiallyMapped(seed=s), 'r.Order': lambda s: ev.recombinators.Order(seed=s), 'r.Cycle': lambda s: ev.recombinators.Cycle(),
}
sigs = collections.Counter(); ex = {}; stats = collections.Counter()
@seed(3)
@settings(max_examples=1500, deadline=None, database=None, suppress_health_check=list(HealthCheck), phases=[Phase.generate])
@given(spec_st(), st.sampled_from(sorted(OPS)), st.integers(0, 1000), st.integers(1, 4))
def test(d, opname, s, npar):
    if d[0] != 'space': return
    try:
        spec = build(d)
    except ValueError as e:
        stats['build-fail'] += 1; return
    stats['n'] += 1
    rnd = random.Random(s)
    parents = [pg.random_dna(spec, rnd) for _ in range(npar if opname[0]=='r' else 1)]
    for i, p in enumerate(parents): p.set_metadata('reward', float(i))
    if opname[0] == 'r' and opname not in ('r.Uniform', 'r.Sample', 'r.Average') and len(parents) != 2: parents = (parents * 2)[:2]
    before = [pg.to_json_str(p, compact=False) for p in parents]
    def run():
        op = OPS[opname](s)
        return op(list(parents))
    try:
        out = run()
    except Exception as e:
        key = (opname, 'raises', type(e).__name__); sigs[key] += 1; ex.setdefault(key, (str(spec)[:200], [p.to_numbers() for p in parents], str(e)[:100])); return
    after = [pg.to_json_str(p, compact=False) for p in parents]
    if before != after: sigs[(opname, 'mutated-input')] += 1; ex.setdefault((opname, 'mutated-input'), ([p.to_numbers() for p in parents],))
    for c in out:
        try: spec.validate(c)
        except Exception as e:
            key = (opname, 'invalid-child'); sigs[key] += 1; ex.setdefault(key, (str(spec)[:300], [p.to_numbers() for p in parents], c.to_numbers(), str(e)[:80])); continue
        try:
            rebuilt = pg.DNA(c.to_numbers(flatten=False), spec=spec)
            if c.spec is None: c.use_spec(spec)
            if c.to_dict() != rebuilt.to_dict():
                key = (opname, 'misaligned'); sigs[key] += 1; ex.setdefault(key, ([p.to_numbers() for p in parents], c.to_dict(), rebuilt.to_dict()))
        except Exception as e:
            key = (opname, 'rebuild-raises', type(e).__name__); sigs[key] += 1; ex.setdefault(key, (c.to_numbers(), str(e)[:80]))
    try:
        out2 = run()
        if [c.to_numbers() for c in out] != [c.to_numbers() for c in out2]: sigs[(opname, 'nondeterministic')] += 1; ex.setdefault((opname, 'nondeterministic'), ([c.to_numbers() for c in out], [c.to_numbers() for c in out2]))
    except Exception: pass
t0 = time.time(); test(); print('time', time.time() - t0, stats)
for k, c in sigs.most_common(): print(c, k, str(ex.get(k))[:400])
