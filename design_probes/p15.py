import time, collections, itertools, random, faulthandler; faulthandler.dump_traceback_later(280, exit=False)
import pyglove as pg
G = pg.geno
# shape: ('space', [dp...]); dp: ('choices', k, [space...], distinct, sorted)
def members(shape):
    """Flat-number tuples of all members, from the definition."""
    if shape[0] == 'space':
        parts = [members(e) for e in shape[1]]
        return [sum(t, ()) for t in itertools.product(*parts)] if parts else [()]
    _, k, cands, distinct, srt = shape
    sub = [members(c) for c in cands]
    out = []
    for idx in itertools.product(range(len(cands)), repeat=k):
        if distinct and len(set(idx)) != k: continue
        if srt and list(idx) != sorted(idx): continue
        for subs in itertools.product(*[sub[i] for i in idx]):
            out.append(sum(((i,) + s for i, s in zip(idx, subs)), ()))
    return out
cnt = [0]
def build(shape):
    if shape[0] == 'space':
        return G.space([build(e) for e in shape[1]])
    _, k, cands, distinct, srt = shape
    cnt[0] += 1
    return G.manyof(k, [build(c) for c in cands], distinct=distinct, sorted=srt, location=f'd{cnt[0]}')
def shapes(budget):
    """All space shapes with <= budget decision points (small candidates)."""
    def spaces(b):
        yield ('space', [])
        if b <= 0: return
        for dp in dps(b):
            yield ('space', [dp])
        if b >= 2:
            for b1 in range(1, b):
                for d1 in dps(b1):
                    for d2 in dps(b - b1):
                        yield ('space', [d1, d2])
    def dps(b):
        if b <= 0: return
        for n in (1, 2, 3):
            for k in (1, 2, 3):
                for distinct in (True, False):
                    for srt in (False, True):
                        if k == 1 and (not distinct or srt): continue
                        if distinct and k > n: continue
                        # candidates: all const, or first candidate a sub-space using remaining budget
                        yield ('choices', k, [('space', [])] * n, distinct, srt)
                        if b > 1:
                            for sub in spaces(b - 1):
                                if sub[1]:
                                    yield ('choices', k, [sub] + [('space', [])] * (n - 1), distinct, srt)
                                    if n >= 2: yield ('choices', k, [('space', [])] * (n - 1) + [sub], distinct, srt)
    return spaces(budget)
t0 = time.time(); n = 0; bad = collections.Counter(); ex = {}
import sys
import itertools as _it
for shape in _it.islice(shapes(2), 0, None, 7):
    if time.time() - t0 > 150: break
    ref = members(shape)
    if len(ref) > 80: continue
    n += 1
    spec = build(shape)
    got = []
    try:
        prev = None
        for d in spec.iter_dna():
            got.append(tuple(d.to_numbers()))
            if prev is not None and not (prev < d): bad['not-increasing'] += 1; ex.setdefault('not-increasing', (shape, prev.to_numbers(), d.to_numbers()))
            prev = d
            if len(got) > len(ref) + 5: break
    except Exception as e:
        bad['iter-raises:' + type(e).__name__] += 1; ex.setdefault('iter-raises:' + type(e).__name__, (shape, str(e)[:100])); continue
    if spec.space_size != len(ref): bad['size'] += 1; ex.setdefault('size', (shape, spec.space_size, len(ref)))
    if len(got) != len(set(got)): bad['dups'] += 1; ex.setdefault('dups', (shape, got[:10]))
    if set(got) != set(ref): bad['set'] += 1; ex.setdefault('set', (shape, sorted(set(got) ^ set(ref))[:5]))
    rnd = random.Random(1)
    for _ in range(5):
        r = tuple(pg.random_dna(spec, rnd).to_numbers())
        if r not in set(ref): bad['random-not-member'] += 1; ex.setdefault('random-not-member', (shape, r))
print('specs', n, 'time', time.time() - t0, dict(bad))
for k, v in ex.items(): print(k, v)
