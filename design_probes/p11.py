import os, time, collections, faulthandler; faulthandler.dump_traceback_later(120, exit=True)
import pyglove as pg
from hypothesis import given, settings, strategies as st, seed, HealthCheck, Phase

leaf = st.one_of(st.integers(-3, 3), st.sampled_from(['a', 'b', None, True]))
def tree(depth=3):
    return st.recursive(leaf, lambda c: st.one_of(st.lists(c, max_size=4), st.dictionaries(st.sampled_from(['k', 'm', 'n', 0, 1]), c, max_size=4)), max_leaves=12)
op = st.tuples(st.sampled_from(['append','insert','setitem','delitem','pop','reverse','sort','extend','iadd','imul','clear','dset','ddel','dpop','dupdate','dior','dclear','popitem','rebind','move']),
               st.integers(0, 50), st.integers(-6, 6), tree(), st.booleans())
prog = st.tuples(st.one_of(st.lists(tree(), max_size=4), st.dictionaries(st.sampled_from(['k','m','n']), tree(), max_size=4)), st.lists(op, max_size=20))

def nodes(root):
    out = []
    def walk(n):
        out.append(n)
        for k, v in n.sym_items():
            if isinstance(v, pg.Symbolic): walk(v)
    walk(root); return out
class Viol(Exception): pass
def check(root, last):
    seen = {}
    def walk(n):
        if id(n) in seen: raise Viol((last, 'dup-node'))
        seen[id(n)] = n
        for k, v in n.sym_items():
            if isinstance(v, pg.Symbolic):
                if v.sym_parent is not n: raise Viol((last, 'parent'))
                if v.sym_path != n.sym_path + k: raise Viol((last, 'path'))
                walk(v)
            elif isinstance(v, (list, dict)): raise Viol((last, 'plain-container'))
    if root.sym_parent is not None: raise Viol((last, 'root-parent'))
    walk(root)
def run(p):
    init, ops = p
    root = pg.from_json(init) if isinstance(init, (list, dict)) else pg.List([init])
    check(root, 'init')
    for name, ti, idx, val, flag in ops:
        ns = nodes(root); n = ns[ti % len(ns)]
        try:
            ctx = pg.notify_on_change(not flag) if name in ('insert','setitem') else pg.notify_on_change(True)
            with ctx:
                if isinstance(n, pg.List):
                    if name == 'append': n.append(val)
                    elif name == 'insert': n.insert(idx, val)
                    elif name == 'setitem': n[idx] = val
                    elif name == 'delitem': del n[idx]
                    elif name == 'pop': n.pop(idx)
                    elif name == 'reverse': n.reverse()
                    elif name == 'sort': n.sort(key=lambda x: str(x))
                    elif name == 'extend': n.extend(val if isinstance(val, list) else [val])
                    elif name == 'iadd': n += (val if isinstance(val, list) else [val])
                    elif name == 'imul': n *= (idx % 3)
                    elif name == 'clear': n.clear()
                    elif name == 'rebind': n.rebind({abs(idx): val})
                    elif name == 'move' and len(ns) > 1 and ns[(ti * 7 + idx) % len(ns)] is not root: n.append(ns[(ti * 7 + idx) % len(ns)])
                    else: continue
                else:
                    key = ['k','m','n',0,1][idx % 5]
                    if name == 'dset': n[key] = val
                    elif name == 'ddel': del n[key]
                    elif name == 'dpop': n.pop(key)
                    elif name == 'dupdate': n.update({key: val})
                    elif name == 'dior': n |= {key: val}
                    elif name == 'dclear': n.clear()
                    elif name == 'popitem': n.popitem()
                    elif name == 'rebind': n.rebind({key: val})
                    elif name == 'move' and len(ns) > 1 and ns[(ti * 7 + idx) % len(ns)] is not root: n[key] = ns[(ti * 7 + idx) % len(ns)]
                    else: continue
        except (IndexError, KeyError, ValueError, TypeError):
            pass
        check(root, name)
stats = collections.Counter(); sigs = collections.Counter()
KNOWN = set()
@seed(1)
@settings(max_examples=3000, deadline=None, database=None, suppress_health_check=list(HealthCheck), phases=[Phase.generate])
@given(prog)
def test(p):
    stats['n'] += 1
    try: run(p)
    except Viol as v:
        sigs[v.args[0]] += 1
    except RecursionError:
        sigs['recursion'] += 1
t0 = time.time(); test(); print('time', time.time() - t0, stats, '\n', sigs.most_common())
