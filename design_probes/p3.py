import pyglove as pg, random
from pyglove.ext import evolution
T = pg.typing
def show(label, f):
    try:
        r = f()
        print(label, '=>', repr(r)[:300])
    except Exception as e:
        print(label, 'RAISES', type(e).__name__, str(e)[:150].replace('\n',' '))
KP = pg.KeyPath
# C10
for keys in [['a','b'], ['a.b'], ['0'], [0], ['-1'], [-1], ['[0]'], ['a',0,'b.c',1], ['[]'], ['x[y]z'], [' '], ['²'], ['a', '٣']]:
    p = KP(keys); s = str(p); q = KP.parse(s)
    print('C10', keys, repr(s), q.keys, q.keys == keys)
show('C10 flatten inverse', lambda: pg.utils.canonicalize(pg.utils.flatten({'a':{'b':[1,{'c':2}], 'd.e': 3}}, False)))
show('C10 flatten inverse int', lambda: pg.utils.canonicalize(pg.utils.flatten({'a':{0: 1, 1: 2}}, False)))
show('C10 flatten digit str', lambda: pg.utils.canonicalize(pg.utils.flatten({'a':{'0': 1}}, False)))
ks = pg.utils.KeyPathSet(['a.b', 'a.c', 'd'])
show('C10 kps', lambda: (list(ks), 'a.b' in ks, 'a' in ks, len(ks)))
# traverse
def f():
    v = pg.Dict(a=[1, {'b.c': 2}], d={'0': 3, 1: 4})
    log = []
    pg.traverse(v, lambda k, x, p: log.append((str(k), x)) or pg.TraverseAction.ENTER)
    return [(k, pg.KeyPath.parse(k).query(v) is x or pg.KeyPath.parse(k).query(v) == x) for k, x in log]
show('C10 traverse', f)
def f():
    v = pg.Dict({'a.b': 1, 'c': {'d.e': 2}})
    v.rebind(lambda k, x: x + 1 if isinstance(x, int) else x)
    return v
show('C10 rebind fn dotted', f)
# C11
spec = pg.geno.space([pg.geno.manyof(2, [pg.geno.constant()]*3, distinct=True, sorted=True, location='a'), pg.geno.oneof([pg.geno.constant(), pg.geno.oneof([pg.geno.constant()]*2)], location='b')])
l = list(spec.iter_dna())
print('C11', len(l), spec.space_size, [d.to_numbers() for d in l][:20])
show('C11 neg idx bind', lambda: pg.DNA([[0,1],-1], spec=spec))
show('C11 neg idx validate', lambda: spec.validate(pg.DNA([[0,1],-1])))
show('C11 neg idx multi', lambda: pg.DNA([[-1,1],0], spec=spec))
show('C11 bool value', lambda: pg.DNA([[0,1],True], spec=spec))
show('C11 sweeping', lambda: [d.to_numbers() for d in pg.iter(pg.Dict(x=pg.oneof([1,2,3])), algorithm=pg.geno.Sweeping())] if False else None)
# C12 swap
spec2 = pg.geno.space([pg.geno.manyof(3, [pg.geno.constant()]*4, distinct=True, sorted=False, location='a', literal_values=['p','q','r','s'])])
d = pg.DNA([0,1,2], spec=spec2)
m = evolution.mutators.Swap(seed=1)
d2 = m.mutate(d)
print('C12 swap', d2.to_numbers(), d2.to_dict(), pg.DNA(d2.to_numbers(flatten=False), spec=spec2).to_dict())
print('C12 swap literal', d2.to_dict(value_type='literal'), [c.spec.subchoice_index for c in d2.children], [c.sym_path for c in d2.children])
# C12 views
d = pg.DNA([[0,1],(1,1)], spec=spec)
for kt in ['id','name_or_id','dna_spec']:
  for vt in ['value','dna','choice','literal','choice_and_literal']:
    for mk in ['subchoice','parent','both']:
      try:
        r = d.to_dict(kt, vt, mk)
        d3 = pg.DNA.from_dict(dict(r), spec)
        ok = d3 == d
      except Exception as e:
        ok = type(e).__name__ + ':' + str(e)[:80]
      if ok is not True: print('C12 view', kt, vt, mk, ok)
show('C12 numbers', lambda: pg.DNA.from_numbers(d.to_numbers(), spec) == d)
show('C12 json', lambda: pg.from_json(d.to_json()) == d)
show('C12 json verbose', lambda: pg.from_json(d.to_json(compact=False)) == d)
# C13
t = pg.template(pg.Dict(x=pg.oneof([1, pg.oneof(['a','b'])]), y=pg.manyof(2, [1,2,3]), z=pg.floatv(0.0,1.0)))
dn = pg.DNA([(1,0),[0,2],0.5], spec=t.dna_spec())
show('C13 decode', lambda: t.decode(dn))
show('C13 encode', lambda: t.encode(t.decode(dn)) == dn)
show('C13 iter', lambda: len(list(pg.iter(pg.Dict(x=pg.oneof([1, pg.oneof(['a','b'])]), y=pg.manyof(2, [1,2,3]))))))
