import pyglove as pg, traceback
def show(label, f):
    try:
        print(label, '=>', f())
    except Exception as e:
        print(label, 'RAISES', type(e).__name__, e)

# C01 probes
l = pg.List([{'a':1},{'b':2},{'c':3}])
l.reverse()
print('reverse paths', [x.sym_path for x in l], [x.sym_parent is l for x in l])
l = pg.List([{'a':1}])
l += [{'z':1}]
print('+= type', type(l[1]))
l *= 2
print('*=', l, [ (getattr(x,'sym_path',None), getattr(x,'sym_parent',None) is l) for x in l])
d = pg.Dict(a={'x':1})
d |= {'b': {'y':2}}
print('|=', d, type(d['b']))
l = pg.List([{'a':1},{'b':2},{'c':3}])
with pg.notify_on_change(False):
    l.insert(0, {'n':0})
print('insert no-notify', [x.sym_path for x in l])
l = pg.List([{'a':1},{'b':2},{'c':3}])
x = l[0]
del l[0]
print('del: removed parent', x.sym_parent is l, x.sym_path, [y.sym_path for y in l])
l = pg.List([{'a':1},{'b':2},{'c':3}])
x = l[0]
l.clear()
print('clear: removed parent', x.sym_parent is l)
d = pg.Dict(a={'x':1})
x = d.a
d.clear()
print('dict clear: removed parent', x.sym_parent is d)
d = pg.Dict(a={'x':1})
x = d.a
d.popitem()
print('dict popitem: removed parent', x.sym_parent is d)
d = pg.Dict(a={'x':1})
x = d.a
d.pop('a')
print('dict pop: removed parent', x.sym_parent is d)
l = pg.List([{'a':1},{'b':2},{'c':3}])
x = l[1]
l[1] = 5
print('list set: removed parent', x.sym_parent is l, x.sym_path)
l = pg.List([{'a':1},{'b':2},{'c':3}])
l[-1] = {'q': 1}
print('neg setitem path', l[-1].sym_path)
with pg.notify_on_change(False):
  l[-1] = {'q': 2}
print('neg setitem path no-notify', l[-1].sym_path)
l.insert(-1, {'w':1})
print('neg insert', [x.sym_path for x in l])
l = pg.List([{'a':1},{'b':2},{'c':3}])
l.sort(key=lambda x: -list(x.values())[0])
print('sort paths', [x.sym_path for x in l])
# C02
show('[::-1]', lambda: pg.List([1,2,3,4])[::-1])
show('[3:0:-1]', lambda: pg.List([1,2,3,4])[3:0:-1])
show('[1:3]', lambda: pg.List([1,2,3,4])[1:3])
def f():
    l = pg.List([1,2,3,4]); l[1:2] = [7,8,9]; return l
show('slice assign grow', f)
def f():
    l = pg.List([1,2,3,4]); l[0:3] = [7]; return l
show('slice assign shrink', f)
def f():
    l = pg.List([1,2,3,4]); l[::2] = [7, 8]; return l
show('ext slice', f)
def f():
    l = pg.List([1,2,3,4]); l[::-1] = [7, 8, 9, 10]; return l
show('neg step slice', f)
def f():
    l = pg.List([1,2,3,4]); l[::-2] = [7, 8]; return l
show('neg step -2 slice', f)
def f():
    l = pg.List([1,2,3,4]); l[2:2] = [7, 8]; return l
show('insert slice', f)
def f():
    l = pg.List([1,2,3,4]); l[3:1] = [7, 8]; return l
show('reversed-bounds slice', f)
def f():
    l = pg.List([1,2,3,4]); del l[1:3]; return l
show('del slice', f)
def f():
    d = pg.Dict(); d.update({'a.b': 1}); return d
show('update dotted', f)
def f():
    d = pg.Dict(); d['a.b']= 1; return d
show('setitem dotted', f)
