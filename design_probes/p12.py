import time, collections, copy, faulthandler; faulthandler.dump_traceback_later(200, exit=True)
import pyglove as pg
from hypothesis import given, settings, strategies as st, seed, HealthCheck, Phase
T = pg.typing
def rng(): 
    return st.tuples(st.one_of(st.none(), st.integers(-2, 3)), st.one_of(st.none(), st.integers(-2, 3))).filter(lambda t: t[0] is None or t[1] is None or t[0] <= t[1])
prim = st.one_of(
    st.just(('bool',)),
    st.tuples(st.just('int'), rng()),
    st.tuples(st.just('float'), rng()),
    st.just(('str',)),
    st.tuples(st.just('enum'), st.lists(st.sampled_from([1, 2, 'a', 'b', None, True]), min_size=1, max_size=3, unique_by=lambda x: (type(x).__name__, x))),
    st.just(('any',)),
)
def ext(c):
    sz = st.tuples(st.integers(0, 2), st.one_of(st.none(), st.integers(0, 3))).filter(lambda t: t[1] is None or t[0] <= t[1])
    return st.one_of(
        st.tuples(st.just('list'), c, sz),
        st.tuples(st.just('tuplev'), c, sz),
        st.tuples(st.just('tuplef'), st.lists(c, min_size=1, max_size=3)),
        st.tuples(st.just('dict'), st.dictionaries(st.sampled_from(['x', 'y']), c, max_size=2)),
        st.tuples(st.just('union'), st.lists(c, min_size=2, max_size=3)),
    )
core = st.recursive(prim, ext, max_leaves=5)
desc = st.tuples(core, st.booleans(), st.booleans())  # noneable, frozen-with-default?
def build(d):
    k = d[0]
    if k == 'bool': return T.Bool()
    if k == 'int': return T.Int(min_value=d[1][0], max_value=d[1][1])
    if k == 'float': return T.Float(min_value=None if d[1][0] is None else float(d[1][0]), max_value=None if d[1][1] is None else float(d[1][1]))
    if k == 'str': return T.Str()
    if k == 'enum': return T.Enum(pg.MISSING_VALUE, list(d[1]))
    if k == 'any': return T.Any()
    if k == 'list': return T.List(build(d[1]), min_size=d[2][0], max_size=d[2][1])
    if k == 'tuplev': return T.Tuple(build(d[1]), min_size=d[2][0], max_size=d[2][1])
    if k == 'tuplef': return T.Tuple([build(x) for x in d[1]])
    if k == 'dict': return T.Dict([(kk, build(v)) for kk, v in d[1].items()])
    if k == 'union': return T.Union([build(x) for x in d[1]])
def mk(dd):
    d, noneable, _ = dd
    s = build(d)
    if noneable: s = s.noneable()
    return s
LEAVES = [None, True, False, 0, 1, 2, 3, -2, -3, 4, 1.5, 0.0, 3.0, -2.5, 'a', 'b', 'zz']
def samples(d, depth=0):
    k = d[0]
    if k in ('bool','int','float','str','enum','any'): return list(LEAVES)
    if k == 'list':
        inner = samples(d[1])[:6]
        return [[]] + [[x] for x in inner] + [[x, y] for x in inner[:3] for y in inner[:3]] + [[inner[0]]*3, [inner[0]]*4, None]
    if k == 'tuplev':
        inner = samples(d[1])[:6]
        return [()] + [(x,) for x in inner] + [(x, y) for x in inner[:3] for y in inner[:3]] + [(inner[0],)*3, (inner[0],)*4, None]
    if k == 'tuplef':
        import itertools
        cols = [samples(x)[:4] for x in d[1]]
        return [tuple(t) for t in itertools.islice(itertools.product(*cols), 40)] + [None, ()]
    if k == 'dict':
        import itertools
        keys = list(d[1])
        cols = [samples(d[1][kk])[:4] for kk in keys]
        return [dict(zip(keys, t)) for t in itertools.islice(itertools.product(*cols), 40)] + [None, {}]
    if k == 'union':
        out = []
        for x in d[1]: out += samples(x)[:10]
        return out
def accepts(s, v):
    try:
        s.apply(copy.deepcopy(v)); return True
    except (TypeError, ValueError, KeyError):
        return False
sigs = collections.Counter(); ex = {}
stats = collections.Counter()
@seed(2)
@settings(max_examples=4000, deadline=None, database=None, suppress_health_check=list(HealthCheck), phases=[Phase.generate])
@given(desc, desc)
def test(da, db):
    try:
        a, b = mk(da), mk(db)
    except (ValueError, TypeError) as e:
        stats['build-fail'] += 1; return
    stats['n'] += 1
    vals = samples(da[0]) + samples(db[0])
    try:
        comp = a.is_compatible(b)
    except Exception as e:
        sigs[('compat-raises', da[0][0], db[0][0], type(e).__name__)] += 1; return
    if comp:
        stats['compat'] += 1
        for v in vals:
            if accepts(b, v) and not accepts(a, v):
                key = ('compat-unsound', da[0][0], db[0][0])
                sigs[key] += 1; ex.setdefault(key, (str(a), str(b), v)); break
    # idempotence
    for v in vals[:15]:
        try: v1 = a.apply(copy.deepcopy(v))
        except (TypeError, ValueError, KeyError): continue
        except Exception as e:
            sigs[('apply-raises', da[0][0], type(e).__name__)] += 1; ex.setdefault(('apply-raises', da[0][0], type(e).__name__), (str(a), v)); continue
        try:
            v2 = a.apply(copy.deepcopy(v1))
            if not pg.eq(v1, v2): sigs[('not-idempotent', da[0][0])] += 1; ex.setdefault(('not-idempotent', da[0][0]), (str(a), v, v1, v2))
        except Exception as e:
            sigs[('reapply-rejects', da[0][0])] += 1; ex.setdefault(('reapply-rejects', da[0][0]), (str(a), v, v1, str(e)[:80]))
    # extension
    try:
        b2 = mk(db).extend(mk(da))
    except TypeError:
        return
    except Exception as e:
        sigs[('extend-raises', da[0][0], db[0][0], type(e).__name__)] += 1; ex.setdefault(('extend-raises', da[0][0], db[0][0], type(e).__name__), (str(a), str(b), str(e)[:100])); return
    stats['extended'] += 1
    for v in vals:
        if accepts(b2, v) and not accepts(a, v):
            key = ('extend-unsound', da[0][0], db[0][0]); sigs[key] += 1; ex.setdefault(key, (str(a), str(b), str(b2), v)); break
    try:
        if not a.is_compatible(b2):
            key = ('extend-not-compat', da[0][0], db[0][0]); sigs[key] += 1; ex.setdefault(key, (str(a), str(b), str(b2)))
    except Exception: pass
t0 = time.time(); test(); print('time', time.time() - t0, stats)
for k, c in sigs.most_common(): print(c, k, ex.get(k))
