import pyglove as pg, html.parser, collections
class A(pg.Object):
    """Doc <b>bold</b>."""
    x: int = 1
    y: str = 'a'
def skel(s):
    out = []
    class P(html.parser.HTMLParser):
        def handle_starttag(self, tag, attrs): out.append(('S', tag, tuple(k for k, _ in attrs)))
        def handle_endtag(self, tag): out.append(('E', tag))
        def handle_startendtag(self, tag, attrs): out.append(('SE', tag, tuple(k for k,_ in attrs)))
    P(convert_charrefs=True).feed(s); return out
def render(v, **kw): return pg.to_html_str(v, **kw)
good = pg.Dict({'kxix': 'vxbxx', 'n': A(x=2, y='qxsx'), 'l': [1, 'zxz']})
bad  = pg.Dict({'k<i>': 'v<b>"', 'n': A(x=2, y='q<s>'), 'l': [1, "z'&"]})
g, b = render(good), render(bad)
sg, sb = skel(g), skel(b)
print(len(g), len(b), len(sg), len(sb), sg == sb)
c = collections.Counter(t[1] for t in sg if t[0]=='S'); print(c)
diff = [(i, x, y) for i, (x, y) in enumerate(zip(sg, sb)) if x != y][:5]
print(diff)
i = b.find('k<i>'); print(repr(b[i-80:i+40]))
i = b.find('q<s>'); print('raw q<s> present:', i)
i = b.find('v<b>'); print('raw v<b> present:', i)
print(b.count('<script'), b.count('<style'))
