import pyglove as pg, random
G = pg.geno
# search small specs where DNA(to_numbers(flatten=False), spec) fails for valid dna
import itertools
def specs():
    c = G.constant
    yield 'oneof[ manyof2 ]', lambda: G.space([G.oneof([G.space([G.manyof(2, [c(), c(), c()], location='m')]), c()], location='a')])
    yield 'oneof[ oneof ]', lambda: G.space([G.oneof([G.space([G.oneof([c(), c()], location='m')]), c()], location='a')])
    yield 'oneof[space[oneof, oneof]]', lambda: G.space([G.oneof([G.space([G.oneof([c(), c()], location='m'), G.oneof([c(), c()], location='n')]), c()], location='a')])
    yield 'manyof[ oneof ]', lambda: G.space([G.manyof(2, [G.space([G.oneof([c(), c()], location='m')]), c(), c()], location='a')])
    yield 'manyof[ manyof ]', lambda: G.space([G.manyof(2, [G.space([G.manyof(2, [c(), c()], location='m', distinct=False)]), c(), c()], location='a')])
    yield 'oneof[ float ]', lambda: G.space([G.oneof([G.space([G.floatv(0., 1., location='m')]), c()], location='a'), G.floatv(0.,1., location='f')])
    yield 'oneof[oneof[manyof]]', lambda: G.space([G.oneof([G.space([G.oneof([G.space([G.manyof(2, [c(), c(), c()], location='k')]), c()], location='m')]), c()], location='a')])
    yield 'manyof1', lambda: G.space([G.manyof(1, [c(), c()], location='a'), G.oneof([c(), c()], location='b')])
    yield 'single manyof root', lambda: G.space([G.manyof(2, [c(), c(), c()], location='a')])
    yield 'oneof[ manyof[oneof] ]', lambda: G.space([G.oneof([G.space([G.manyof(2, [G.space([G.oneof([c(), c()], location='z')]), c(), c()], location='m')]), c()], location='a')])
for name, mk in specs():
    spec = mk()
    bad = 0; tot = 0; exm = None
    for d in spec.iter_dna() if spec.space_size != -1 else [pg.random_dna(spec, random.Random(i)) for i in range(30)]:
        tot += 1
        nested = d.to_numbers(flatten=False)
        try:
            r = pg.DNA(nested, spec=spec)
            ok = r == d
        except Exception as e:
            ok = False; err = str(e)[:60]
        try:
            f = pg.DNA.from_numbers(d.to_numbers(), spec); okf = f == d
        except Exception as e:
            okf = 'ERR ' + str(e)[:50]
        j = pg.from_json(d.to_json()); 
        try: j.use_spec(spec); okj = j == d
        except Exception as e: okj = 'ERR ' + str(e)[:50]
        if not ok or okf is not True or okj is not True:
            bad += 1; exm = exm or (d.to_numbers(), nested, ok, okf, okj)
    print(name, 'total', tot, 'bad', bad, exm)
