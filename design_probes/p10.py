import pyglove as pg
LOG = []
class L(pg.Object):
    x: pg.typing.Any() = None
    y: pg.typing.Any() = None
    def _on_change(self, updates):
        LOG.append((f'L@{self.sym_path}', {str(k): (u.old_value, u.new_value) for k, u in updates.items()}))
class Q(pg.Object):  # non-subscribing
    x: pg.typing.Any() = None
    def _on_bound(self):
        super()._on_bound(); LOG.append((f'Q@{self.sym_path}.bound',))
def cb(name):
    return lambda updates: LOG.append((name, {str(k): (repr(u.old_value), repr(u.new_value)) for k, u in updates.items()}))
root = L(x=pg.Dict(a=pg.List([1, L(x=1)], onchange_callback=cb('list')), onchange_callback=cb('dict')), y=Q(x=pg.List([5])))
LOG.clear()
def step(label, f):
    LOG.clear()
    try: f()
    except Exception as e: LOG.append(('EXC', type(e).__name__, str(e)[:80]))
    print(label); [print('   ', l) for l in LOG]
step('rebind deep 2 paths', lambda: root.rebind({'x.a[1].x': 2, 'x.a[0]': 7}))
step('list insert', lambda: root.x.a.insert(0, 9))
step('list del', lambda: root.x.a.__delitem__(0))
step('dict setitem', lambda: root.x.__setitem__('b', 3))
step('dict update', lambda: root.x.update({'c': 4}))
step('dict pop', lambda: root.x.pop('c'))
step('list extend', lambda: root.x.a.extend([1,2]))
step('list clear', lambda: root.x.a.clear())
step('nonsub child', lambda: root.y.x.append(6))
step('same value no-op', lambda: root.rebind({'x.b': 3}, raise_on_no_change=False))
with pg.notify_on_change(False):
    step('disabled', lambda: root.x.__setitem__('b', 4))
step('slice assign', lambda: root.y.x.__setitem__(slice(0,1), [7,8]))
