import pyglove as pg, copy, pickle
T = pg.typing
def show(label, f):
    try:
        r = f()
        print(label, '=>', repr(r)[:200])
    except Exception as e:
        print(label, 'RAISES', type(e).__name__, str(e)[:150].replace('\n',' '))
# C03
def f():
    l = pg.List([1,2], value_spec=T.List(T.Int(), max_size=3)); l += ['x']; return list(l)
show('C03 += untyped', f)
def f():
    l = pg.List([1,2], value_spec=T.List(T.Int(), max_size=3)); l[1:1] = [5,6,7]; return list(l)
show('C03 slice exceeds max', f)
def f():
    l = pg.List([1,2], value_spec=T.List(T.Int(), min_size=2)); del l[0]; return list(l)
show('C03 del below min', f)
def f():
    l = pg.List([1,2], value_spec=T.List(T.Int(), min_size=2)); l.pop(); return list(l)
show('C03 pop below min', f)
def f():
    l = pg.List([1,2], value_spec=T.List(T.Int(), max_size=2)); l.rebind({0: pg.Insertion(9)}); return list(l)
show('C03 rebind insert exceeds max', f)
def f():
    l = pg.List([1,2], value_spec=T.List(T.Int(), max_size=2)); l.rebind({5: 9}); return list(l)
show('C03 rebind append exceeds max', f)
def f():
    l = pg.List([1,2], value_spec=T.List(T.Int(), min_size=2)); l.rebind({0: pg.MISSING_VALUE}); return list(l)
show('C03 rebind delete below min', f)
def f():
    d = pg.Dict(a=1, value_spec=T.Dict([('a', T.Int())])); d |= {'b': 'x'}; return dict(d)
show('C03 |= untyped', f)
def f():
    l = pg.List([1,2], value_spec=T.List(T.Int(min_value=0))); 
    try: l[0] = -1
    except Exception as e: print('  rejected', type(e).__name__)
    return list(l)
show('C03 rejected write keeps', f)
def f():
    l = pg.List([1,2,3], value_spec=T.List(T.Int(min_value=0)));
    try: l[0:2] = [5, -1]
    except Exception as e: print('  rejected', type(e).__name__)
    return list(l)
show('C03 slice rejected', f)
def f():
    l = pg.List([1,2,3], value_spec=T.List(T.Int(min_value=0)));
    try: l.extend([5, -1])
    except Exception as e: print('  rejected', type(e).__name__)
    return list(l)
show('C03 extend partially applied', f)
def f():
    l = pg.List([3,1,2], value_spec=T.List(T.Int(), size=3)); l.sort(); l.reverse(); return list(l)
show('C03 sort ok', f)
def f():
    l = pg.List([3,1,2], value_spec=T.List(T.Int(), max_size=4)); return list(l*2)
show('C03 mul exceeds', f)
def f():
    l = pg.List([3,1,2], value_spec=T.List(T.Int(), max_size=4)); l *= 2; return list(l)
show('C03 imul exceeds', f)
# C04
show('C04 List(min2) compat List()', lambda: T.List(T.Int(), min_size=2).is_compatible(T.List(T.Int())))
show('C04 frozen compat', lambda: T.Int().freeze(1).is_compatible(T.Int()))
show('C04 Int compat Float', lambda: (T.Float().is_compatible(T.Int()), T.Float().apply(1)))
show('C04 Union compat', lambda: T.Union([T.Int(), T.Str()]).is_compatible(T.Int(min_value=0)))
show('C04 Enum compat', lambda: T.Enum(1,[1,2]).is_compatible(T.Enum(1,[1])))
show('C04 Int compat Enum', lambda: T.Int().is_compatible(T.Enum(1,[1,2])))
show('C04 Any compat', lambda: T.Any().is_compatible(T.Int()))
show('C04 dict compat', lambda: T.Dict([('a', T.Int())]).is_compatible(T.Dict([('a', T.Int(min_value=0))])))
show('C04 dict noschema compat', lambda: T.Dict().is_compatible(T.Dict([('a', T.Int(min_value=0))])))
show('C04 extend', lambda: T.Int(min_value=1).extend(T.Int(max_value=5)))
show('C04 default apply', lambda: T.Float(default=1).default)
show('C04 tuple var compat', lambda: T.Tuple(T.Int(), min_size=1).is_compatible(T.Tuple(T.Int())))
# C05
show('C05 ()', lambda: pg.from_json(pg.to_json(pg.Dict(x=()))))
show('C05 enum nodefault', lambda: pg.from_json(pg.to_json(T.Enum(pg.MISSING_VALUE, [1,2]))))
show('C05 tuple marker', lambda: pg.from_json(pg.to_json(pg.List(['__tuple__', 1]))))
show('C05 n_: key', lambda: pg.from_json_str(pg.to_json_str(pg.Dict({'n_:1': 2}))))
show('C05 int key', lambda: pg.from_json_str(pg.to_json_str(pg.Dict({1: 2, '1': 3}))))
show('C05 int key objform', lambda: pg.from_json(pg.to_json(pg.Dict({1: 2, '1': 3}))))
show('C05 nan', lambda: pg.from_json_str(pg.to_json_str(pg.Dict(x=float('nan'), y=float('inf')))))
show('C05 ctrl', lambda: pg.from_json_str(pg.to_json_str(pg.Dict(x='\x00 \ud800'))))
def f():
    pg.save(pg.Dict(a=1), '/mem/m.json'); return pg.load('/mem/m.json')
show('C05 /mem/m.json', f)
def f():
    pg.save(pg.Dict(a=[1,2,3,4,5]), '/mem/x/f.json'); pg.save(pg.Dict(a=1), '/mem/x/f.json'); return pg.io.readfile('/mem/x/f.json')
show('C05 stale bytes', f)
show('C05 pickle list', lambda: pickle.loads(pickle.dumps(pg.List([1,{'a':2}]))))
show('C05 deepcopy', lambda: copy.deepcopy(pg.Dict(a=[1,{'b':2}])))
# C06
show('C06 lt None None', lambda: pg.lt(None, None))
show('C06 lt MISSING', lambda: pg.lt(pg.MISSING_VALUE, pg.MISSING_VALUE))
show('C06 dict order', lambda: (pg.eq({'a':1,'b':2},{'b':2,'a':1}), pg.lt({'a':1,'b':2},{'b':2,'a':1}), pg.lt({'b':2,'a':1},{'a':1,'b':2})))
show('C06 hash dict order', lambda: (pg.hash(pg.Dict(a=1,b=2)) == pg.hash(pg.Dict(b=2,a=1))))
show('C06 list vs pgList eq', lambda: (pg.eq([1], pg.List([1])), pg.eq(pg.List([1]), [1]), pg.eq({'a':1}, pg.Dict(a=1)), pg.eq(pg.Dict(a=1), {'a':1})))
show('C06 tuple lt mixed', lambda: pg.lt((1,'a'), (1, 2)))
show('C06 lt int key vs str key', lambda: pg.lt({1:1}, {'a':1}))
show('C06 hash list vs tuple', lambda: (pg.eq([1,2], (1,2))))
# C07
show('C07 list sealed clone', lambda: (pg.List([1], sealed=True).clone().is_sealed, pg.Dict(a=1, sealed=True).clone().is_sealed))
show('C07 list clone callbacks', lambda: pg.List([1], accessor_writable=False).clone().accessor_writable)
# C09
def f():
    d = pg.Dict(value_spec=T.Dict([('a', T.Int()), ('b', T.Int(default=1))]), allow_partial=True)
    r = [d.is_partial]
    d.update(a=1)
    r.append(d.is_partial); r.append(d.sym_missing())
    return r
show('C09 update stale', f)
