import sys, threading, time, random, types
import pyglove as pg
from pyglove.core.tuning import local_backend

TARGET = ('local_backend.py', 'sample.py', 'dna_generator.py', 'random.py')
CUR = threading.local()

class Sched:
    def __init__(self, choices):
        self.choices = choices; self.ci = 0
        self.sems = {}; self.main = threading.Semaphore(0)
        self.state = {}  # tid -> 'ready'|'done'|('blocked', lock)
        self.steps = 0
    def tracer(self, tid):
        def local(frame, event, arg):
            if event == 'line':
                self.yield_(tid)
            return local
        def glob(frame, event, arg):
            fn = frame.f_code.co_filename
            if fn.endswith(TARGET) and 'pyglove' in fn:
                return local
            return None
        return glob
    def yield_(self, tid):
        self.main.release()
        self.sems[tid].acquire()
    def run(self, fns):
        threads = []
        for i, fn in enumerate(fns):
            self.sems[i] = threading.Semaphore(0); self.state[i] = 'ready'
            def body(i=i, fn=fn):
                CUR.sched = self; CUR.tid = i
                self.sems[i].acquire()
                sys.settrace(self.tracer(i))
                try: fn()
                finally:
                    sys.settrace(None); self.state[i] = 'done'; self.main.release()
            t = threading.Thread(target=body); t.start(); threads.append(t)
        while True:
            ready = [i for i, s in self.state.items() if s == 'ready' or (isinstance(s, tuple) and not s[1].held)]
            if not ready:
                if any(isinstance(s, tuple) for s in self.state.values()): raise RuntimeError('deadlock')
                break
            c = self.choices[self.ci % len(self.choices)] if self.choices else 0; self.ci += 1
            i = ready[c % len(ready)]
            self.sems[i].release(); self.main.acquire(); self.steps += 1
        for t in threads: t.join()

class CoopLock:
    def __init__(self): self.held = False
    def acquire(self, blocking=True, timeout=-1):
        s = getattr(CUR, 'sched', None)
        while self.held:
            if s is None: raise RuntimeError('contention outside scheduler')
            s.state[CUR.tid] = ('blocked', self)
            s.yield_(CUR.tid)
        if s is not None: s.state[CUR.tid] = 'ready'
        self.held = True
        return True
    def release(self): self.held = False
    __enter__ = acquire
    def __exit__(self, *a): self.release()

shim = types.SimpleNamespace(Lock=CoopLock, get_ident=threading.get_ident)
local_backend.threading = shim

def worker(name, out):
    def f():
        for ex, fb in pg.sample(pg.Dict(x=pg.oneof([1,2,3])), pg.geno.Random(seed=1), num_examples=6, name=name):
            out.append(fb.id); fb(float(ex.x))
    return f
rnd = random.Random(0)
t0 = time.time(); bad = 0; N = 200
for r in range(N):
    name = f'study{r}'
    outs = [[], []]
    s = Sched([rnd.randrange(2) for _ in range(5000)])
    s.run([worker(name, outs[0]), worker(name, outs[1])])
    ids = sorted(outs[0] + outs[1])
    res = pg.poll_result(name)
    if ids != [1,2,3,4,5,6] or len(res.trials) != 6: bad += 1; last = (ids, len(res.trials))
print('runs', N, 'bad', bad, 'steps/run', s.steps, 'time', time.time() - t0)
if bad: print(last)
