import pyglove as pg
from pyglove.core import coding
P = coding.CodePermission
for code in ['x = 1\nx += 2', 'a = [0]\na[0] = 5', 'a, b = 1, 2', 'x: int = 3', 'x = y = 2', 'class A: pass\nA.z = 3']:
    try:
        print(repr(code), '=>', {k: v for k, v in coding.evaluate(code, permission=P.ALL, outputs_intermediate=True).items() if k != 'A'})
    except Exception as e:
        print(repr(code), 'RAISES', type(e).__name__, str(e)[:100])
