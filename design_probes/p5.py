import pyglove as pg, random
from pyglove.ext import evolution
space = pg.Dict(x=pg.oneof([1,2,3,4]), y=pg.manyof(2,[1,2,3,4]), z=pg.oneof([5, pg.oneof([6,7])]))
spec = pg.dna_spec(space)
def reward(dna): return float(sum(v for v in dna.to_numbers() if isinstance(v,int)))
def mk(kind):
    if kind=='re': return evolution.regularized_evolution(evolution.mutators.Uniform(seed=1), population_size=4, tournament_size=2, seed=1)
    if kind=='hc': return evolution.hill_climb(evolution.mutators.Uniform(seed=1), batch_size=2, init_population_size=2, seed=1)
    if kind=='dd-re': return pg.geno.Deduping(mk('re'))
    if kind=='dd-rand': return pg.geno.Deduping(pg.geno.Random(seed=1))
    if kind=='sweep': return pg.geno.Sweeping()
    if kind=='rand': return pg.geno.Random(seed=3)
def state(a):
    s = dict(np=a.num_proposals, nf=a.num_feedbacks)
    inner = a
    if isinstance(a, pg.geno.Deduping):
        s['cache'] = {k: list(v) for k, v in a._cache.items()}
        inner = a.generator
        s['inner'] = (inner.num_proposals, inner.num_feedbacks)
    if isinstance(inner, evolution.Evolution):
        s['pop'] = [(d.to_numbers(), d.metadata.get('reward')) for d in inner.population]
        s['gen'] = inner.num_generations
        s['init'] = inner._population_initialized
    return s
for kind in ['sweep','rand','dd-rand','re','hc','dd-re']:
  for N, w in [(0,0),(3,0),(3,1),(7,0),(7,2),(12,0), (12,3)]:
    a = mk(kind); a.setup(spec)
    hist = []
    pending = []
    try:
      for i in range(N):
        d = a.propose(); pending.append(d); hist.append([d, None])
        if len(pending) > w:
            p = pending.pop(0); r = reward(p); a.feedback(p, r)
            for h in hist:
                if h[0] is p: h[1] = r
    except Exception as e:
        print(kind, N, w, 'RUN RAISES', type(e).__name__, str(e)[:80]); continue
    # persist through json
    js = [(pg.to_json_str(d), r) for d, r in hist]
    b = mk(kind); b.setup(spec)
    try:
        b.recover([(pg.from_json_str(s), r) for s, r in js])
    except Exception as e:
        print(kind, N, w, 'RECOVER RAISES', type(e).__name__, str(e)[:100]); continue
    sa, sb = state(a), state(b)
    ok = sa == sb
    nxt = None
    if kind in ('sweep','rand','dd-rand'):
        try:
            na = [a.propose().to_numbers() for _ in range(3)]
        except StopIteration: na='stop'
        try:
            nb = [b.propose().to_numbers() for _ in range(3)]
        except StopIteration: nb='stop'
        nxt = na == nb
    print(kind, N, w, 'state_eq', ok, 'next_eq', nxt, '' if ok else (sa, sb))
