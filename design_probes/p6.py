import pyglove as pg, ast, inspect
from pyglove.core import coding
P = coding.CodePermission
class S:
    def __init__(self): self.n = 0
    @property
    def touch(self): self.n += 1; return 0
def t(code, perm, outer=None):
    s = S()
    try:
        if outer is not None:
            with coding.permission(outer):
                r = coding.evaluate(code, global_vars={'__sentinel__': s}, permission=perm)
        else:
            r = coding.evaluate(code, global_vars={'__sentinel__': s}, permission=perm)
        return ('ok', r, s.n)
    except coding.CodeError as e:
        return ('CodeError', type(e.cause).__name__, s.n)
    except Exception as e:
        return ('OTHER', type(e).__name__, str(e)[:80], s.n)
pre = '__sentinel__.touch\n'
print('walrus', t(pre + '(y := 3)\ny', P(0) | P.CALL))
print('annassign', t(pre + 'x: int = 3\nx', P.CALL))
print('augassign', t(pre + 'x = 1', P.CALL), t(pre+'x = 1\nx += 2\nx', P.CALL))
print('trystar', t(pre + 'try:\n  pass\nexcept* ValueError:\n  pass\n1', P.CALL))
print('empty perm', t(pre + 'x = 1\nx', P(0)))
print('outer narrow/arg wide', t(pre + 'x = 1\nx', P.ALL, outer=P.CALL))
print('outer only', t(pre + 'x = 1\nx', None, outer=P.CALL))
print('nested lambda default', t(pre + 'def f(a=lambda: 1):\n  return a\n1', P.FUNCTION_DEFINITION | P.ASSIGN))
print('decorator call', t(pre + 'def d(f): return f\n@d\ndef g(): return 1\n2', P.FUNCTION_DEFINITION))
print('error', t(pre + 'x = 1\ny = x / 0\n', P.ALL))
try:
    coding.evaluate('x = 1\ny = x / 0\n', permission=P.ALL)
except coding.CodeError as e:
    print('lineno', e.lineno, type(e.cause))
print('intermediate', coding.evaluate('x = 1\ny = x + 1\nprint(y)\ny * 2', permission=P.ALL, outputs_intermediate=True))
print('last stmt not expr', coding.evaluate('x = 1\nfor i in range(3):\n  x += i', permission=P.ALL, outputs_intermediate=True))
print('comprehension', t(pre + '[i for i in range(3)]', P.CALL))
print('ifexp', t(pre + '1 if True else 2', P(0)|P.CALL))
print('with', t(pre + 'import contextlib\nwith contextlib.nullcontext():\n  x=1\nx', P.ALL))
