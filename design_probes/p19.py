import time, collections, copy, faulthandler; faulthandler.dump_traceback_later(200, exit=True)
import pyglove as pg
from hypothesis import given, settings, strategies as st, seed, HealthCheck, Phase
val = st.one_of(st.integers(-3, 3), st.sampled_from(['a', 'b', None]), st.lists(st.integers(0, 2), max_size=2))
idx = st.integers(-7, 7)
sl = st.tuples(st.one_of(st.none(), idx), st.one_of(st.none(), idx), st.one_of(st.none(), st.integers(-3, 3)))
op = st.one_of(
    st.tuples(st.just('append'), val), st.tuples(st.just('insert'), idx, val), st.tuples(st.just('extend'), st.lists(val, max_size=3)),
    st.tuples(st.just('pop'), st.one_of(st.none(), idx)), st.tuples(st.just('remove'), val), st.tuples(st.just('del'), idx), st.tuples(st.just('delslice'), sl),
    st.tuples(st.just('set'), idx, val), st.tuples(st.just('setslice'), sl, st.lists(val, max_size=4)), st.tuples(st.just('getslice'), sl), st.tuples(st.just('get'), idx),
    st.tuples(st.just('sort')), st.tuples(st.just('reverse')), st.tuples(st.just('clear')), st.tuples(st.just('iadd'), st.lists(val, max_size=3)), st.tuples(st.just('imul'), st.integers(-1, 3)),
    st.tuples(st.just('add'), st.lists(val, max_size=3)), st.tuples(st.just('mul'), st.integers(-1, 3)), st.tuples(st.just('index'), val), st.tuples(st.just('count'), val), st.tuples(st.just('contains'), val), st.tuples(st.just('copy')),
)
def plain(v):
    if isinstance(v, list): return [plain(x) for x in v]
    if isinstance(v, dict): return {k: plain(x) for k, x in v.items()}
    return v
def apply(x, o):
    k = o[0]
    if k == 'append': return x.append(copy.deepcopy(o[1]))
    if k == 'insert': return x.insert(o[1], copy.deepcopy(o[2]))
    if k == 'extend': return x.extend(copy.deepcopy(o[1]))
    if k == 'pop': return x.pop() if o[1] is None else x.pop(o[1])
    if k == 'remove': return x.remove(o[1])
    if k == 'del': del x[o[1]]; return None
    if k == 'delslice': del x[slice(*o[1])]; return None
    if k == 'set': x[o[1]] = copy.deepcopy(o[2]); return None
    if k == 'setslice': x[slice(*o[1])] = copy.deepcopy(o[2]); return None
    if k == 'getslice': return x[slice(*o[1])]
    if k == 'get': return x[o[1]]
    if k == 'sort': return x.sort(key=repr)
    if k == 'reverse': return x.reverse()
    if k == 'clear': return x.clear()
    if k == 'iadd': x += copy.deepcopy(o[1]); return None
    if k == 'imul': x *= o[1]; return None
    if k == 'add': return x + copy.deepcopy(o[1])
    if k == 'mul': return x * o[1]
    if k == 'index': return x.index(o[1])
    if k == 'count': return x.count(o[1])
    if k == 'contains': return o[1] in x
    if k == 'copy': return x.copy()
sigs = collections.Counter(); ex = {}; stats = collections.Counter()
def rec(key, *info): sigs[key] += 1; ex.setdefault(key, info)
@seed(9)
@settings(max_examples=4000, deadline=None, database=None, suppress_health_check=list(HealthCheck), phases=[Phase.generate])
@given(st.lists(val, max_size=5), st.lists(op, max_size=12))
def test(init, ops):
    stats['n'] += 1
    ref = copy.deepcopy(init); sut = pg.List(copy.deepcopy(init))
    for o in ops:
        before = copy.deepcopy(ref)
        try: r1 = ('ok', plain(apply(ref, o)))
        except Exception as e: r1 = ('exc', type(e).__name__)
        try: r2 = ('ok', plain(apply(sut, o)))
        except Exception as e: r2 = ('exc', type(e).__name__)
        if r1 != r2: rec((o[0], 'result', r1[0], r2[0], r2[1] if r2[0]=='exc' else ''), before, o, r1, r2); return
        if plain(list(sut)) != ref: rec((o[0], 'contents'), before, o, ref, plain(list(sut))); return
t0 = time.time(); test(); print('time', time.time() - t0, stats)
for k, c in sigs.most_common(): print(c, k, str(ex.get(k))[:300])
