import pyglove as pg, threading
from pyglove.core import utils, coding
def show(label, f):
    try: print(label, '=>', repr(f())[:200])
    except Exception as e: print(label, 'RAISES', type(e).__name__, str(e)[:100])
# contextual override cascade
def f():
    out = []
    with pg.contextual_override(x=1, cascade=True):
        with pg.contextual_override(x=2, y=3):
            out.append((pg.contextual_value('x'), pg.contextual_value('y')))
            with pg.contextual_override(y=4, cascade=True):
                with pg.contextual_override(y=5): out.append(pg.contextual_value('y'))
        out.append(pg.contextual_value('y', None))
    out.append(pg.contextual_value('x', None)); return out
show('contextual', f)
def f():
    out = []
    with pg.str_format(compact=True, verbose=False):
        with pg.str_format(verbose=True, x=1):
            out.append(utils.thread_local_kwargs('_str_format_kwargs'))
        out.append(utils.thread_local_kwargs('_str_format_kwargs'))
    out.append(utils.thread_local_kwargs('_str_format_kwargs')); return out
show('str_format', f)
def f():
    out = []
    with pg.view_options(a=1, b={'c': 1}):
        with pg.view_options(b={'d': 2}) as o: out.append(dict(o))
    return out
show('view_options', f)
def f():
    out = []
    with coding.context(a=1):
        with coding.context(b=2, a=3): out.append(coding.get_context())
        out.append(coding.get_context())
    out.append(coding.get_context()); return out
show('coding.context', f)
class A: pass
class B: pass
class C: pass
def f():
    out = []
    with pg.detour([(A, B)]):
        with pg.detour([(A, C), (B, C)]): out.append((type(A()).__name__, type(B()).__name__))
        out.append(type(A()).__name__)
    out.append(type(A()).__name__); return out
show('detour', f)
def f():
    with pg.timeit('a') as t:
        with pg.timeit('b'): pass
    return (list(t.status().keys()), utils.thread_local_has('__timing_context__'))
show('timeit', f)
def f():
    try:
        with pg.as_sealed(True):
            with pg.allow_partial(True):
                raise ValueError()
    except ValueError: pass
    return (pg.symbolic.flags.is_under_sealed_scope(), pg.symbolic.flags.is_under_partial_scope(), utils.thread_local_has('_sealed'))
show('exception exit', f)
def f():
    res = {}
    with pg.as_sealed(True), pg.contextual_override(x=1), pg.notify_on_change(False):
        t = threading.Thread(target=lambda: res.update(s=pg.symbolic.flags.is_under_sealed_scope(), x=pg.contextual_value('x', None), n=pg.symbolic.flags.is_change_notification_enabled()))
        t.start(); t.join()
    return res
show('other thread', f)
print([n for n in dir(pg) if 'override' in n or 'sealed' in n or 'notify' in n or 'format' in n or 'partial' in n or 'track' in n or 'writable' in n or 'auto_call' in n or 'type_check' in n])
