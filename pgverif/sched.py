"""Harness-owned deterministic thread scheduler (used by C16).

Worker threads are real `threading.Thread`s.  Each runs under `sys.settrace` with a line hook
restricted to a set of target files; at every line event (a "step") the running worker asks the
scheduler which worker runs next.  Exactly one worker runs at any time, so a run is a pure
function of (programs, chooser).  `threading.Lock` objects created by the code under test are
replaced (by swapping the `threading` name in the target modules for `shim`) with `CoopLock`,
which reports "blocked" to the scheduler instead of blocking the OS thread, so the scheduler
never deadlocks itself and can detect real deadlocks.
"""
import sys
import threading
import types

_CUR = threading.local()


class SchedAbort(BaseException):
  """Unwinds a worker when the run is aborted (deadlock, step budget)."""


class CoopLock:
  """Non-reentrant lock that yields to the scheduler while held by another worker."""

  def __init__(self):
    self.held = False
    self.owner = None

  def acquire(self, blocking=True, timeout=-1):
    del timeout
    s = getattr(_CUR, 'sched', None)
    tid = getattr(_CUR, 'tid', None)
    while self.held:
      if not blocking:
        return False
      if s is None:
        raise RuntimeError('lock contention outside the scheduler')
      s.state[tid] = ('blocked', self)
      s.yield_(tid, 'lock.acquire', False)
    if s is not None:
      s.state[tid] = 'ready'
    self.held = True
    self.owner = tid
    return True

  def release(self):
    self.held = False
    self.owner = None

  def locked(self):
    return self.held

  def __enter__(self):
    self.acquire()
    return self

  def __exit__(self, *a):
    self.release()


class _Shim(types.ModuleType):
  """Stands in for the `threading` module inside the modules under test."""

  def __init__(self):
    super().__init__('threading')

  def __getattr__(self, name):
    if name in ('Lock', 'RLock'):
      return CoopLock
    return getattr(threading, name)


shim = _Shim()


class Sched:
  """One deterministic run of several workers."""

  def __init__(self, chooser, target_suffixes, critical_names=(), max_steps=60000):
    self.chooser = chooser
    self.targets = tuple(target_suffixes)
    self.critical = set(critical_names)
    self.max_steps = max_steps
    self.sems = []
    self.state = []
    self.steps = 0
    self.own_steps = []
    self.current = None
    self.switches = 0
    self.critical_switches = 0
    self.abort = None
    self.main = threading.Semaphore(0)
    self.errors = []

  # -- called by the running worker --------------------------------------------------------

  def _ready(self):
    out = []
    for i, s in enumerate(self.state):
      if s == 'ready' or (isinstance(s, tuple) and not s[1].held):
        out.append(i)
    return out

  def yield_(self, tid, where, critical):
    if self.abort:
      raise SchedAbort()
    self.steps += 1
    self.own_steps[tid] += 1
    if self.steps > self.max_steps:
      self._abort('step budget exceeded')
      raise SchedAbort()
    ready = self._ready()
    if not ready:
      self._abort('deadlock: every live worker is blocked on a lock')
      raise SchedAbort()
    nxt = self.chooser(ready, tid, self)
    if nxt == tid:
      return
    self.switches += 1
    if critical:
      self.critical_switches += 1
    self.current = nxt
    self.sems[nxt].release()
    self.sems[tid].acquire()
    if self.abort:
      raise SchedAbort()

  def _abort(self, why):
    if not self.abort:
      self.abort = why
    for s in self.sems:
      s.release()
    self.main.release()

  def _finish(self, tid):
    self.state[tid] = 'done'
    if self.abort:
      self.main.release()
      return
    if all(s == 'done' for s in self.state):
      self.main.release()
      return
    ready = self._ready()
    if not ready:
      self._abort('deadlock: every live worker is blocked on a lock')
      return
    nxt = self.chooser(ready, tid, self)
    self.current = nxt
    self.sems[nxt].release()

  # -- tracing -----------------------------------------------------------------------------

  def _tracer(self, tid):
    sched = self

    def local(frame, event, arg):
      del arg
      if event == 'line':
        sched.yield_(tid, frame.f_code.co_name, frame.f_code.co_name in sched.critical)
      return local

    def glob(frame, event, arg):
      del event, arg
      if frame.f_code.co_filename.endswith(sched.targets):
        return local
      return None
    return glob

  # -- driver ------------------------------------------------------------------------------

  def run(self, fns, timeout=50):
    n = len(fns)
    self.sems = [threading.Semaphore(0) for _ in range(n)]
    self.state = ['ready'] * n
    self.own_steps = [0] * n
    threads = []

    def body(i, fn):
      _CUR.sched, _CUR.tid = self, i
      self.sems[i].acquire()
      try:
        if not self.abort:
          sys.settrace(self._tracer(i))
          try:
            fn()
          finally:
            sys.settrace(None)
      except SchedAbort:
        pass
      except BaseException as e:   # pylint: disable=broad-except
        import traceback
        self.errors.append((i, e, traceback.format_exc()[-1500:]))
      finally:
        _CUR.sched = None
        self._finish(i)
    for i, fn in enumerate(fns):
      t = threading.Thread(target=body, args=(i, fn), daemon=True)
      t.start()
      threads.append(t)
    first = self.chooser(list(range(n)), None, self)
    self.current = first
    self.sems[first].release()
    if not self.main.acquire(timeout=timeout):
      self._abort('harness timeout')
    for t in threads:
      t.join(5)
    return self
