"""DNASpec shapes as plain JSON: builder, brute-force reference enumerator, strategies.

shape  := {"t": "space", "e": [dp, ...]}
dp     := {"t": "choices", "k": int, "c": [space, ...], "distinct": bool, "sorted": bool,
           "name": str|None, "lit": bool|"digits"|"ints"}
        | {"t": "float", "lo": num, "hi": num, "name": str|None}
        | {"t": "custom", "name": str|None}
"""
import math
import itertools

import pyglove as pg
from hypothesis import strategies as st

from pgverif import core

G = pg.geno


def validate(shape, top=True):
  if not isinstance(shape, dict):
    raise core.InvalidCase(shape)
  t = shape.get('t')
  if t == 'space':
    if not isinstance(shape.get('e'), list):
      raise core.InvalidCase(shape)
    for e in shape['e']:
      if not isinstance(e, dict) or e.get('t') == 'space':
        raise core.InvalidCase(shape)
      validate(e, False)
  elif t == 'choices':
    k, c = shape.get('k'), shape.get('c')
    if isinstance(k, bool) or not isinstance(k, int) or k < 1 or not isinstance(c, list) or not c:
      raise core.InvalidCase(shape)
    if shape.get('distinct', True) and k > len(c):
      raise core.InvalidCase(shape)
    if k == 1 and (not shape.get('distinct', True) or shape.get('sorted', False)):
      raise core.InvalidCase(shape)
    for x in c:
      if not isinstance(x, dict) or x.get('t') != 'space':
        raise core.InvalidCase(shape)
      validate(x, False)
  elif t == 'float':
    lo, hi = shape.get('lo'), shape.get('hi')
    if any(isinstance(x, bool) or not isinstance(x, (int, float)) for x in (lo, hi)) or not lo <= hi:
      raise core.InvalidCase(shape)
    if shape.get('scale') not in (None, 'linear', 'log', 'rlog') or (shape.get('scale') in ('log', 'rlog') and lo <= 0):
      raise core.InvalidCase(shape)
  elif t == 'custom':
    pass
  else:
    raise core.InvalidCase(shape)
  n = shape.get('name')
  if n is not None and (not isinstance(n, str) or not n.isidentifier()):
    raise core.InvalidCase(shape)


def is_finite(shape):
  t = shape['t']
  if t == 'space':
    return all(is_finite(e) for e in shape['e'])
  if t == 'choices':
    return all(is_finite(c) for c in shape['c'])
  return False


def build(shape, _counter=None, location=None):
  """Builds the geno DNASpec (each decision point gets a unique location)."""
  counter = _counter if _counter is not None else [0]
  t = shape['t']
  if t == 'space':
    elems = []
    for e in shape['e']:
      counter[0] += 1
      elems.append(build(e, counter, 'd%d' % counter[0]))
    return G.space(elems)
  name = shape.get('name')
  if t == 'choices':
    cands = [build(c, counter) for c in shape['c']]
    lits = None
    lit, n = shape.get('lit'), len(cands)
    if lit == 'digits':
      # strings of digits that do not spell their own position
      lits = [str((i + 1) % n) if n > 1 else '7' for i in range(n)]
    elif lit == 'ints':
      lits = [(i + 1) % n if n > 1 else 7 for i in range(n)]
    elif lit:
      lits = ['v%d' % i for i in range(n)]
    kw = dict(distinct=shape.get('distinct', True), sorted=shape.get('sorted', False),
              literal_values=lits, location=location or '', name=name)
    return G.manyof(shape['k'], cands, **kw)
  if t == 'float':
    return G.floatv(float(shape['lo']), float(shape['hi']), scale=shape.get('scale'), location=location or '', name=name)
  return G.custom(location=location or '', name=name)


def size(shape, cap=10 ** 7):
  """Number of members from the definition (without building them)."""
  t = shape['t']
  if t == 'space':
    n = 1
    for e in shape['e']:
      n *= size(e, cap)
      if n > cap:
        return cap + 1
    return n
  if t != 'choices':
    raise core.InvalidCase('infinite')
  sub = [size(c, cap) for c in shape['c']]
  n = 0
  for idx in itertools.product(range(len(sub)), repeat=shape['k']):
    if shape.get('distinct', True) and len(set(idx)) != len(idx):
      continue
    if shape.get('sorted', False) and list(idx) != sorted(idx):
      continue
    p = 1
    for i in idx:
      p *= sub[i]
    n += p
    if n > cap:
      return cap + 1
  return n


def members(shape):
  """Flat-number tuples of all members, written from the definition of the constraints."""
  t = shape['t']
  if t == 'space':
    parts = [members(e) for e in shape['e']]
    return [sum(tp, ()) for tp in itertools.product(*parts)] if parts else [()]
  if t != 'choices':
    raise core.InvalidCase('infinite')
  sub = [members(c) for c in shape['c']]
  out = []
  for idx in itertools.product(range(len(sub)), repeat=shape['k']):
    if shape.get('distinct', True) and len(set(idx)) != len(idx):
      continue
    if shape.get('sorted', False) and list(idx) != sorted(idx):
      continue
    for subs in itertools.product(*[sub[i] for i in idx]):
      out.append(sum(((i,) + s for i, s in zip(idx, subs)), ()))
  return out


def decisions(shape, nums):
  """Reference walk of (shape, flat numbers) -> list of (decision point path, shape node, value).

  The path is a tuple of (element position | candidate index | subchoice position) steps.  Raises
  ValueError if the numbers do not fit the shape.
  """
  it = iter(nums)
  out = []

  def space(s, path):
    for ei, e in enumerate(s['e']):
      dp(e, path + (('e', ei),))

  def dp(d, path):
    if d['t'] == 'choices':
      for j in range(d['k']):
        try:
          v = next(it)
        except StopIteration:
          raise ValueError('too few numbers')
        if isinstance(v, bool) or not isinstance(v, int) or not 0 <= v < len(d['c']):
          raise ValueError('bad index %r' % (v,))
        out.append((path + (('s', j),) if d['k'] > 1 else path, d, v))
        space(d['c'][v], path + (('s', j), ('c', v)))
    else:
      try:
        v = next(it)
      except StopIteration:
        raise ValueError('too few numbers')
      out.append((path, d, v))
  space(shape, ())
  rest = list(it)
  if rest:
    raise ValueError('too many numbers')
  return out


# ---------------------------------------------------------------------------
# Strategies
# ---------------------------------------------------------------------------

NAMES = [None, None, 'x', 'y', 'z', 'w']


def shape_strategy(max_depth=2, floats=False, custom=False, names=False, max_cands=3, max_k=3, max_elems=3):
  """Random DNASpec shapes (names are made unique at build time by the caller)."""
  const = st.just({'t': 'space', 'e': []})

  def choices(sub):
    def mk(cands, k, distinct, srt, name, lit):
      k = max(1, min(k, max_k))
      if k == 1:
        distinct, srt = True, False
      if distinct and k > len(cands):
        k = len(cands)
        if k == 1:
          srt = False
      d = {'t': 'choices', 'k': k, 'c': cands, 'distinct': distinct, 'sorted': srt}
      if names and name:
        d['name'] = name
      if names and lit:
        d['lit'] = lit
      return d
    return st.builds(mk, st.lists(sub, min_size=1, max_size=max_cands), st.integers(1, max_k), st.booleans(),
                     st.booleans(), st.sampled_from(NAMES), st.sampled_from([False, False, False, True, True, 'digits', 'ints']))

  def dps(sub):
    opts = [choices(sub)]
    if floats:
      def mkfloat(lo, w, n, scale):
        # widths: 0 (a single point), one ulp, or an ordinary range; bounds that are not dyadic rationals
        hi = lo if w == 0 else (math.nextafter(lo, math.inf) if w == 'ulp' else lo + w)
        d = {'t': 'float', 'lo': lo, 'hi': hi}
        if scale is not None and (scale == 'linear' or lo > 0):
          d['scale'] = scale
        if names and n:
          d['name'] = n
        return d
      opts.append(st.builds(mkfloat, st.sampled_from([-2, -1, 0, 1, 2, 0.1, 0.3, 3.0, 1e-3, 10.0, 7.0, -0.7]),
                            st.sampled_from([1, 2, 3, 1, 2, 3, 0.5, 0, 'ulp']), st.sampled_from(NAMES),
                            st.sampled_from([None, None, 'linear', 'log', 'rlog'])))
    if custom:
      opts.append(st.just({'t': 'custom'}))
    return st.one_of(*opts)

  space = const
  for _ in range(max_depth):
    prev = space
    space = st.one_of(const, st.lists(dps(st.one_of(const, prev)), min_size=1, max_size=max_elems).map(
        lambda es: {'t': 'space', 'e': es}))
  return st.lists(dps(st.one_of(const, space)), min_size=1, max_size=max_elems).map(
      lambda es: uniquify({'t': 'space', 'e': es}))


def uniquify(shape):
  """Makes decision point names unique (pyglove requires unique names)."""
  seen = {}

  def walk(s):
    if s['t'] == 'space':
      return {'t': 'space', 'e': [walk(e) for e in s['e']]}
    d = dict(s)
    if d.get('name'):
      n = seen.get(d['name'], 0)
      seen[d['name']] = n + 1
      if n:
        d['name'] = '%s%d' % (d['name'], n)
    if d['t'] == 'choices':
      d['c'] = [walk(c) for c in d['c']]
    return d
  return walk(shape)


def enumerate_shapes(budget, cands=(1, 2, 3), ks=(1, 2, 3)):
  """All space shapes with <= budget decision points (sub-spaces only at the first or last candidate)."""
  const = {'t': 'space', 'e': []}

  def spaces(b):
    yield const
    if b <= 0:
      return
    for d in dps(b):
      yield {'t': 'space', 'e': [d]}
    if b >= 2:
      for b1 in range(1, b):
        for d1 in dps(b1):
          for d2 in dps(b - b1):
            yield {'t': 'space', 'e': [d1, d2]}

  def dps(b):
    if b <= 0:
      return
    for n in cands:
      for k in ks:
        for distinct in (True, False):
          for srt in (False, True):
            if k == 1 and (not distinct or srt):
              continue
            if distinct and k > n:
              continue
            yield {'t': 'choices', 'k': k, 'c': [const] * n, 'distinct': distinct, 'sorted': srt}
            if b > 1:
              for sub in spaces(b - 1):
                if sub['e']:
                  yield {'t': 'choices', 'k': k, 'c': [sub] + [const] * (n - 1), 'distinct': distinct, 'sorted': srt}
                  if n >= 2:
                    yield {'t': 'choices', 'k': k, 'c': [const] * (n - 1) + [sub], 'distinct': distinct, 'sorted': srt}
  for s in spaces(budget):
    if s['e']:
      yield s
