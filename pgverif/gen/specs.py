"""Value-spec descriptors (plain JSON): builder, value samplers, independent acceptance predicate.

Descriptor:
  {"t": kind, ...params, "noneable": bool, "default": [choice ints] (absent = no default), "frozen": bool}
kinds:
  bool | int(min,max) | float(min,max) | str | enum(values) | list(elem,min,max) |
  tuple(elems) | vtuple(elem,min,max) | dict(fields=[[key, S]...], dyn=S|None) | dict0 (schema-less) |
  object(fields=[[name, S]...]) | pobject(cls in class family) | union(cands) | any
"""
import hashlib
import json

import pyglove as pg
from hypothesis import strategies as st

from pgverif import core
from pgverif.gen import classes

T = pg.typing
MISSING = pg.MISSING_VALUE


class Choices:
  """Deterministic choice sequence consumed by the samplers."""

  def __init__(self, ints):
    if not isinstance(ints, list) or any(isinstance(x, bool) or not isinstance(x, int) for x in ints):
      raise core.InvalidCase(ints)
    self.ints = ints or [0]
    self.pos = 0

  def pick(self, n):
    if n <= 0:
      return 0
    v = self.ints[self.pos % len(self.ints)]
    self.pos += 1
    return abs(v) % n


CHOICES = st.lists(st.integers(0, 11), min_size=1, max_size=8)

# ---------------------------------------------------------------------------
# Strategy
# ---------------------------------------------------------------------------

FIELD_NAMES = ['a', 'b', 'c', 'd']


# the spec classes whose constructor takes `transform=`
XFORM_KINDS = ('list', 'tuple', 'vtuple', 'dict', 'dict0', 'object', 'pobject')


def _identity(x):
  return x


def _mods(base, allow_frozen=True):
  def add(d, noneable, default, frozen, xform=False):
    d = dict(d)
    if noneable:
      d['noneable'] = True
    if xform and d.get('t') in XFORM_KINDS:
      d['xform'] = True      # a user transform (the identity): validation then goes through the transform-less twin
    if default is not None:
      d['default'] = default
      if frozen and allow_frozen:
        d['frozen'] = True
    return d
  return st.builds(add, base, st.booleans(), st.one_of(st.none(), st.none(), CHOICES),
                   st.sampled_from([False, False, False, True]), st.sampled_from([False] * 5 + [True]))


def _bound():
  return st.one_of(st.none(), st.integers(-2, 4))


def _num(kind):
  def mk(lo, hi):
    if lo is not None and hi is not None and lo > hi:
      lo, hi = hi, lo
    return {'t': kind, 'min': lo, 'max': hi}
  return st.builds(mk, _bound(), _bound())


def _sizes():
  def mk(lo, hi):
    if hi is not None and lo > hi:
      lo, hi = hi, lo
    return lo, hi
  return st.builds(mk, st.integers(0, 2), st.one_of(st.none(), st.integers(0, 4)))


def leaf_spec():
  return st.one_of(
      st.just({'t': 'bool'}), _num('int'), _num('float'), st.just({'t': 'str'}),
      st.sampled_from([
          {'t': 'enum', 'values': ['p', 'q']}, {'t': 'enum', 'values': [1, 2, 3]},
          {'t': 'enum', 'values': ['p', None, 2]}]),
      st.just({'t': 'any'}))


def spec_strategy(max_leaves=5, objects=True):
  def ext(c):
    m = _mods(c)
    opts = [
        st.builds(lambda e, sz: {'t': 'list', 'elem': e, 'min': sz[0], 'max': sz[1]}, m, _sizes()),
        st.lists(m, min_size=1, max_size=3).map(lambda es: {'t': 'tuple', 'elems': es}),
        st.builds(lambda e, sz: {'t': 'vtuple', 'elem': e, 'min': sz[0], 'max': sz[1]}, c, _sizes()),
        st.builds(lambda fs, dyn: {'t': 'dict', 'fields': [[n, s] for n, s in zip(FIELD_NAMES, fs)], 'dyn': dyn},
                  st.lists(m, max_size=3), st.one_of(st.none(), st.none(), c)),
        st.just({'t': 'dict0'}),
        st.lists(c, min_size=2, max_size=3).map(_mk_union),
    ]
    if objects:
      opts.append(st.lists(m, min_size=1, max_size=3).map(
          lambda fs: {'t': 'object', 'fields': [[n, s] for n, s in zip(FIELD_NAMES, fs)]}))
      opts.append(st.sampled_from([{'t': 'pobject', 'cls': 'P'}, {'t': 'pobject', 'cls': 'R'},
                                   {'t': 'pobject', 'cls': 'Req'}]))
    return st.one_of(*opts)
  return _mods(st.recursive(leaf_spec(), ext, max_leaves=max_leaves))


def _vtype(d):
  """Python value type family of a spec, used to keep union candidates distinct."""
  return {'bool': 'bool', 'int': 'int', 'float': 'float', 'str': 'str', 'enum': 'enum',
          'list': 'list', 'tuple': 'tuple', 'vtuple': 'tuple', 'dict': 'dict', 'dict0': 'dict',
          'object': 'object', 'pobject': 'object', 'union': 'union', 'any': 'any'}[d['t']]


def _mk_union(cands):
  seen, out = set(), []
  for c in cands:
    vt = _vtype(c)
    if vt in ('union', 'any', 'enum') or vt in seen:
      continue
    seen.add(vt)
    out.append({k: v for k, v in c.items() if k not in ('default', 'frozen', 'noneable')})
  kinds = {_vtype(c) for c in out}
  if 'bool' in kinds and kinds & {'int', 'float'}:
    # bool is an int: the union dispatches True/False to whichever candidate
    # comes first, so such unions are ambiguous by construction.
    out = [c for c in out if _vtype(c) != 'bool']
  if len(out) < 2:
    out = [{'t': 'int', 'min': None, 'max': None}, {'t': 'str'}]
  return {'t': 'union', 'cands': out}


def container_spec_strategy(max_leaves=5):
  """Top-level typed container: list, dict or object."""
  inner = spec_strategy(max_leaves=max_leaves)
  return st.one_of(
      st.builds(lambda e, sz: {'t': 'list', 'elem': e, 'min': sz[0], 'max': sz[1]}, inner, _sizes()),
      st.builds(lambda fs, dyn: {'t': 'dict', 'fields': [[n, s] for n, s in zip(FIELD_NAMES, fs)], 'dyn': dyn},
                st.lists(inner, min_size=1, max_size=4), st.one_of(st.none(), inner)),
      st.lists(inner, min_size=1, max_size=4).map(
          lambda fs: {'t': 'object', 'fields': [[n, s] for n, s in zip(FIELD_NAMES, fs)]}))


# ---------------------------------------------------------------------------
# Descriptor -> pg.typing spec
# ---------------------------------------------------------------------------

_CLASS_CACHE = {}


def _check(d):
  if not isinstance(d, dict) or not isinstance(d.get('t'), str):
    raise core.InvalidCase(d)
  if d['t'] in ('dict', 'object'):
    for f in d.get('fields', []):
      if not (isinstance(f, list) and len(f) == 2 and isinstance(f[0], str) and f[0].isidentifier()):
        raise core.InvalidCase(d)
  return d['t']


def make_class(d):
  """pg.Object subclass for an 'object' descriptor (cached per descriptor)."""
  key = json.dumps(d.get('fields'), sort_keys=True)
  cls = _CLASS_CACHE.get(key)
  if cls is None:
    fields = []
    for name, s in d['fields']:
      if not isinstance(name, str) or not name.isidentifier():
        raise core.InvalidCase(d)
      fields.append((name, to_spec(s)))
    cname = 'Dyn' + hashlib.md5(key.encode()).hexdigest()[:8]
    cls = pg.members(fields)(type(cname, (pg.Object,), {
        'auto_register': False, '__module__': __name__, 'allow_symbolic_assignment': True}))
    _CLASS_CACHE[key] = cls
  return cls


PRIMS = ('bool', 'int', 'float', 'str', 'enum')


def is_frozen(d):
  """Frozen is modelled for primitives, lists of primitives and schema-less dicts only
  (a frozen container whose nested specs have defaults is formalized by the library)."""
  if not (d.get('frozen') and 'default' in d):
    return False
  t = d.get('t')
  if t in PRIMS or t == 'dict0':
    return True
  return t == 'list' and isinstance(d.get('elem'), dict) and d['elem'].get('t') in PRIMS


def has_default(d):
  if d.get('t') == 'enum':
    # Enum.noneable() adds None to the values but does not set a default.
    return 'default' in d
  return 'default' in d or d.get('noneable', False)


def default_of(d):
  """The default value (plain) a spec descriptor declares, or MISSING."""
  if 'default' in d:
    return sample(_strip(d), Choices(d['default']))
  if d.get('noneable') and d.get('t') != 'enum':
    return None
  return MISSING


def _strip(d):
  return {k: v for k, v in d.items() if k not in ('default', 'frozen')}


class SpecBuildError(Exception):
  """The library refused to build a spec from a structurally valid descriptor."""


def validate(d):
  """Raises InvalidCase unless d is a structurally valid descriptor."""
  t = _check(d)
  def isint(x):
    return isinstance(x, int) and not isinstance(x, bool)
  if 'default' in d and not (isinstance(d['default'], list) and all(isint(x) for x in d['default'])):
    raise core.InvalidCase(d)
  if t in ('int', 'float'):
    lo, hi = d.get('min'), d.get('max')
    if not all(x is None or isint(x) for x in (lo, hi)) or (lo is not None and hi is not None and lo > hi):
      raise core.InvalidCase(d)
  elif t == 'enum':
    vs = d.get('values')
    if not isinstance(vs, list) or not vs or any(isinstance(x, (list, dict)) for x in vs):
      raise core.InvalidCase(d)
  elif t in ('list', 'vtuple'):
    lo, hi = d.get('min') or 0, d.get('max')
    if not isint(lo) or lo < 0 or not (hi is None or (isint(hi) and hi >= lo)):
      raise core.InvalidCase(d)
    validate(d.get('elem'))
  elif t == 'tuple':
    if not isinstance(d.get('elems'), list) or not d['elems']:
      raise core.InvalidCase(d)
    for e in d['elems']:
      validate(e)
  elif t in ('dict', 'object'):
    if not isinstance(d.get('fields'), list) or (t == 'object' and not d['fields']):
      raise core.InvalidCase(d)
    if len({f[0] for f in d['fields']}) != len(d['fields']):
      raise core.InvalidCase(d)
    for _, fs in d['fields']:
      validate(fs)
    if t == 'dict' and d.get('dyn') is not None:
      validate(d['dyn'])
  elif t == 'pobject':
    if d.get('cls') not in classes.CLASSES:
      raise core.InvalidCase(d)
  elif t == 'union':
    cs = d.get('cands')
    if not isinstance(cs, list) or len(cs) < 2:
      raise core.InvalidCase(d)
    for c in cs:
      validate(c)
    kinds = [_vtype(c) for c in cs]
    if len(set(kinds)) != len(kinds) or set(kinds) & {'union', 'any', 'enum'} or (
        'bool' in kinds and set(kinds) & {'int', 'float'}):
      raise core.InvalidCase(d)
    if any(k in c for c in cs for k in ('default', 'frozen', 'noneable')):
      raise core.InvalidCase(d)
  elif t not in ('bool', 'str', 'dict0', 'any'):
    raise core.InvalidCase(d)


def to_spec(d, _validated=False):
  if not _validated:
    validate(d)
  t = _check(d)
  try:
    if t == 'bool':
      s = T.Bool()
    elif t == 'int':
      s = T.Int(min_value=d.get('min'), max_value=d.get('max'))
    elif t == 'float':
      s = T.Float(min_value=d.get('min'), max_value=d.get('max'))
    elif t == 'str':
      s = T.Str()
    elif t == 'enum':
      s = T.Enum(MISSING, list(d['values']))
    elif t == 'list':
      s = T.List(to_spec(d['elem']), min_size=d.get('min') or 0, max_size=d.get('max'))
    elif t == 'tuple':
      s = T.Tuple([to_spec(e) for e in d['elems']])
    elif t == 'vtuple':
      s = T.Tuple(to_spec(d['elem']), min_size=d.get('min') or 0, max_size=d.get('max'))
    elif t == 'dict':
      fields = [(k, to_spec(s)) for k, s in d['fields']]
      if d.get('dyn') is not None:
        fields.append((T.StrKey('u.*'), to_spec(d['dyn'])))
      s = T.Dict(fields)
    elif t == 'dict0':
      s = T.Dict()
    elif t == 'object':
      s = T.Object(make_class(d))
    elif t == 'pobject':
      s = T.Object(classes.CLASSES[d['cls']])
    elif t == 'union':
      if d.get('noneable') and d.get('ctor_noneable'):
        # the other public way of making a union accept None
        return_early = T.Union([to_spec(c) for c in d['cands']], is_noneable=True)
        if 'default' in d:
          return_early = return_early.set_default(default_of(d))
          if is_frozen(d):
            return_early = return_early.freeze()
        return return_early
      s = T.Union([to_spec(c) for c in d['cands']])
    elif t == 'any':
      s = T.Any()
    else:
      raise core.InvalidCase(d)
    if d.get('xform') and t in XFORM_KINDS:
      s._transform = _identity      # pylint: disable=protected-access  (what the constructor argument `transform=` stores)
    if d.get('noneable'):
      s = s.noneable()
    if 'default' in d:
      s = s.set_default(default_of(d))
      if is_frozen(d):
        s = s.freeze()
    return s
  except (core.InvalidCase, SpecBuildError):
    raise
  except (KeyError, TypeError, ValueError, AttributeError) as e:
    raise SpecBuildError('spec %r cannot be built: %s: %s' % (d, type(e).__name__, e)) from e


# ---------------------------------------------------------------------------
# Samplers
# ---------------------------------------------------------------------------

STRS = ['a', 'b', '', 'xyz']


def _num_values(d, as_float):
  lo, hi = d.get('min'), d.get('max')
  if lo is None and hi is None:
    vals = [0, 1, -3, 7]
  elif lo is None:
    vals = [hi, hi - 1, hi - 5]
  elif hi is None:
    vals = [lo, lo + 1, lo + 6]
  else:
    vals = [lo, hi, (lo + hi) // 2]
  if as_float:
    extra = []
    if lo is not None and hi is not None and hi > lo:
      extra = [lo + (hi - lo) / 4.0]
    elif lo is None and hi is None:
      extra = [0.5]
    vals = [float(v) for v in vals] + extra
  return vals


def sample(d, ch, depth=0):
  """A value the spec accepts (constructed, not filtered)."""
  t = _check(d)
  if is_frozen(d):
    return default_of(d)
  if d.get('noneable') and ch.pick(5) == 0:
    return None
  if t == 'bool':
    return bool(ch.pick(2))
  if t == 'int':
    vals = _num_values(d, False)
    return vals[ch.pick(len(vals))]
  if t == 'float':
    vals = _num_values(d, True)
    return vals[ch.pick(len(vals))]
  if t == 'str':
    return STRS[ch.pick(len(STRS))]
  if t == 'enum':
    return d['values'][ch.pick(len(d['values']))]
  if t in ('list', 'vtuple'):
    lo = d.get('min') or 0
    hi = d.get('max')
    top = (hi if hi is not None else lo + 2)
    if depth > 3:
      top = lo
    n = lo + ch.pick(max(1, top - lo + 1))
    items = [sample(d['elem'], ch, depth + 1) for _ in range(n)]
    return items if t == 'list' else tuple(items)
  if t == 'tuple':
    return tuple(sample(e, ch, depth + 1) for e in d['elems'])
  if t == 'dict':
    out = {}
    for k, s in d['fields']:
      if has_default(s) and ch.pick(3) == 0:
        continue
      out[k] = sample(s, ch, depth + 1)
    if d.get('dyn') is not None:
      for i in range(ch.pick(3)):
        out['u%d' % i] = sample(d['dyn'], ch, depth + 1)
    return out
  if t == 'dict0':
    return [{}, {'k': 1}, {'k': [1, 2], 'm': 'a'}][ch.pick(3)]
  if t == 'object':
    cls = make_class(d)
    kw = {}
    for k, s in d['fields']:
      if has_default(s) and ch.pick(3) == 0:
        continue
      kw[k] = sample(s, ch, depth + 1)
    return cls(**kw)
  if t == 'pobject':
    name = d['cls']
    if name == 'Req':
      return classes.Req(r=ch.pick(5), n=None)
    if name == 'R':
      return classes.R(x=ch.pick(3), z=ch.pick(2))
    sub = [classes.P, classes.Q, classes.R][ch.pick(3)]
    return sub(x=ch.pick(3))
  if t == 'union':
    c = d['cands'][ch.pick(len(d['cands']))]
    return sample(c, ch, depth + 1)
  if t == 'any':
    return [0, 'a', None, [1], {'k': 1}, 2.5, True][ch.pick(7)]
  raise core.InvalidCase(d)


class _Junk:
  """A value no generated spec accepts (except Any)."""

  def __repr__(self):
    return 'Junk()'


def near_miss(d, ch, depth=0):
  """A value the spec must reject, or (False, None) if none can be constructed.

  Returns (True, value).
  """
  t = _check(d)
  cands = []
  if t == 'any':
    return False, None
  if is_frozen(d):
    ok, v = _different(d, ch)
    return ok, v
  if not d.get('noneable') and t != 'enum':
    cands.append(None)
  if t == 'enum' and None not in d['values'] and not d.get('noneable'):
    cands.append(None)
  if t == 'bool':
    cands += ['x', 2]
  elif t in ('int', 'float'):
    if d.get('min') is not None:
      cands.append(d['min'] - 1 if t == 'int' else float(d['min']) - 0.5)
    if d.get('max') is not None:
      cands.append(d['max'] + 1 if t == 'int' else float(d['max']) + 0.5)
    cands += ['x']
    if t == 'int':
      cands.append(1.5)
    else:
      # an int enters a Float field through the int -> float converter: the range still applies to it
      if d.get('min') is not None:
        cands.append(int(d['min']) - 1)
      if d.get('max') is not None:
        cands.append(int(d['max']) + 1)
  elif t == 'str':
    cands += [1, 2.5]
  elif t == 'enum':
    cands += ['zz', 99]
  elif t in ('list', 'vtuple'):
    seq = list if t == 'list' else tuple
    lo, hi = d.get('min') or 0, d.get('max')
    if hi is not None:
      cands.append(seq(sample(d['elem'], ch, depth + 1) for _ in range(hi + 1)))
    if lo > 0:
      cands.append(seq(sample(d['elem'], ch, depth + 1) for _ in range(lo - 1)))
    ok, bad = near_miss(d['elem'], ch, depth + 1)
    if ok and (hi is None or hi >= max(lo, 1)):
      n = max(lo, 1)
      items = [sample(d['elem'], ch, depth + 1) for _ in range(n - 1)] + [bad]
      cands.append(seq(items))
    cands += ['x', 3]
  elif t == 'tuple':
    es = d['elems']
    cands.append(tuple(sample(e, ch, depth + 1) for e in es) + (0,))
    if es:
      cands.append(tuple(sample(e, ch, depth + 1) for e in es[:-1]))
      ok, bad = near_miss(es[-1], ch, depth + 1)
      if ok:
        cands.append(tuple(sample(e, ch, depth + 1) for e in es[:-1]) + (bad,))
    cands += ['x']
  elif t == 'dict':
    base = sample(_strip({**d, 'noneable': False}), ch, depth + 1)
    if d.get('dyn') is None:
      cands.append({**base, 'zzz': 1})
    else:
      cands.append({**base, 'not_dynamic': 1})
    for k, s in d['fields']:
      ok, bad = near_miss(s, ch, depth + 1)
      if ok:
        cands.append({**base, k: bad})
        break
    cands += ['x', 3]
  elif t == 'dict0':
    cands += ['x', 3, [1]]
  elif t in ('object', 'pobject'):
    cands += [classes.W(), 3, 'x']
  elif t == 'union':
    cands.append(_Junk())
  if not cands:
    return False, None
  return True, cands[ch.pick(len(cands))]


def _different(d, ch):
  """A value different from the frozen default (accepted by the unfrozen spec)."""
  cur = default_of(d)
  base = _strip(d)
  for _ in range(6):
    v = sample(base, ch)
    try:
      if not pg.eq(v, cur):
        return True, v
    except Exception:   # pylint: disable=broad-except
      pass
  return False, None


# ---------------------------------------------------------------------------
# Independent acceptance predicate (conservative: True / False / None=unknown)
# ---------------------------------------------------------------------------

def _and(results):
  out = True
  for r in results:
    if r is False:
      return False
    if r is None:
      out = None
  return out


def accepts(d, v, partial=False):
  """Does the spec accept value v?  True / False / None (not decided here)."""
  t = _check(d)
  if v is MISSING or isinstance(v, pg.utils.MissingValue):
    if has_default(d):
      return True
    return True if partial else False
  if is_frozen(d):
    try:
      return True if pg.eq(v, default_of(d)) else False
    except Exception:   # pylint: disable=broad-except
      return None
  if v is None:
    if d.get('noneable') or t == 'any':
      return True
    if t == 'enum':
      return None in d['values']
    if t == 'union':
      return None
    return False
  if isinstance(v, _Junk):
    return t == 'any'
  if t == 'any':
    return True
  if t == 'bool':
    return isinstance(v, bool)
  if t in ('int', 'float'):
    if isinstance(v, bool):
      if t == 'float':
        return None
    elif isinstance(v, int):
      pass
    elif isinstance(v, float):
      if t == 'int':
        return False
    else:
      return False
    if d.get('min') is not None and v < d['min']:
      return False
    if d.get('max') is not None and v > d['max']:
      return False
    return True
  if t == 'str':
    return isinstance(v, str)
  if t == 'enum':
    try:
      return any(v == x and (v is not None) == (x is not None) for x in d['values'])
    except Exception:   # pylint: disable=broad-except
      return None
  if t in ('list', 'vtuple'):
    want = list if t == 'list' else tuple
    if not isinstance(v, want):
      return False if isinstance(v, (int, float, str, bool, dict)) else None
    items = list(v.sym_values()) if isinstance(v, pg.List) else list(v)
    lo, hi = d.get('min') or 0, d.get('max')
    if len(items) < lo or (hi is not None and len(items) > hi):
      return False
    return _and(accepts(d['elem'], x, partial) for x in items)
  if t == 'tuple':
    if not isinstance(v, tuple):
      return False if isinstance(v, (int, float, str, bool, dict)) else None
    if len(v) != len(d['elems']):
      return False
    return _and(accepts(e, x, partial) for e, x in zip(d['elems'], v))
  if t == 'dict':
    if not isinstance(v, dict):
      return False if isinstance(v, (int, float, str, bool, list, tuple)) else None
    items = dict(v.sym_items()) if isinstance(v, pg.Dict) else dict(v)
    declared = {k for k, _ in d['fields']}
    res = []
    for k, x in items.items():
      if k in declared:
        continue
      if d.get('dyn') is not None and isinstance(k, str) and k.startswith('u'):
        res.append(accepts(d['dyn'], x, partial))
      else:
        return False
    for k, s in d['fields']:
      if k in items:
        res.append(accepts(s, items[k], partial))
      elif not has_default(s) and not partial:
        return False
    return _and(res)
  if t == 'dict0':
    if isinstance(v, dict):
      return True
    return False if isinstance(v, (int, float, str, bool, list, tuple)) else None
  if t == 'object':
    cls = make_class(d)
    if not isinstance(v, cls):
      return False if isinstance(v, (int, float, str, bool, list, tuple, pg.Object)) else None
    return _and(accepts(s, v.sym_getattr(k, MISSING), partial or v.sym_partial) for k, s in d['fields'])
  if t == 'pobject':
    cls = classes.CLASSES[d['cls']]
    if isinstance(v, cls):
      return True
    return False if isinstance(v, (int, float, str, bool, list, tuple, pg.Object)) else None
  if t == 'union':
    rs = [accepts(c, v, partial) for c in d['cands']]
    if any(r is True for r in rs):
      return True
    if all(r is False for r in rs):
      return False
    return None
  raise core.InvalidCase(d)


def spec_at(d, keys):
  """Descriptor of the location reached from a value of spec d along keys (None = unknown)."""
  for k in keys:
    if d is None:
      return None
    t = d['t']
    if t in ('list', 'vtuple'):
      d = d['elem'] if isinstance(k, int) else None
    elif t == 'tuple':
      d = d['elems'][k] if isinstance(k, int) and 0 <= k < len(d['elems']) else None
    elif t in ('dict', 'object'):
      nxt = None
      for name, s in d['fields']:
        if name == k:
          nxt = s
      if nxt is None and t == 'dict' and d.get('dyn') is not None and isinstance(k, str) and k.startswith('u'):
        nxt = d['dyn']
      d = nxt
    elif t == 'pobject':
      d = {'t': 'any'} if d['cls'] in ('P', 'R') and k in ('x', 'y', 'z') else None
    elif t == 'union':
      d = None
    else:
      d = None
  return d


def loosen(d, mode=0):
  """The same structure with numeric ranges (mode 0: both bounds, 1: only max, 2: only min) and
  max sizes removed and modifiers dropped (a wider spec)."""
  t = d['t']
  out = {k: v for k, v in d.items() if k not in ('default', 'frozen')}
  if t in ('int', 'float'):
    if mode in (0, 2):
      out['min'] = None
    if mode in (0, 1):
      out['max'] = None
  elif t in ('list', 'vtuple'):
    # min sizes are kept: is_compatible ignoring List.min_size is recorded under C04 (C04-K2)
    out['max'] = None
    out['elem'] = loosen(d['elem'], mode)
  elif t == 'tuple':
    out['elems'] = [loosen(e, mode) for e in d['elems']]
  elif t in ('dict', 'object'):
    out['fields'] = [[k, loosen(v, mode)] for k, v in d['fields']]
    if t == 'dict' and d.get('dyn') is not None:
      out['dyn'] = loosen(d['dyn'], mode)
  elif t == 'union':
    out['cands'] = [loosen(c, mode) for c in d['cands']]
  return out


def any_frozen(d):
  if not isinstance(d, dict):
    return False
  if is_frozen(d):
    return True
  subs = []
  if 'elem' in d:
    subs.append(d['elem'])
  subs += d.get('elems', []) + [f[1] for f in d.get('fields', [])] + d.get('cands', [])
  if d.get('dyn'):
    subs.append(d['dyn'])
  return any(any_frozen(x) for x in subs)
