"""Value descriptors (plain JSON) and their builders / Hypothesis strategies.

Descriptor forms:
  scalar (None, bool, int, float, str)      -> itself
  [d, ...]                                  -> list
  {"$d": [[key, d], ...]}                   -> dict (str or int keys)
  {"$o": "P", "a": {field: d}}              -> pg.Object of the class family
  {"$t": [d, ...]}                          -> tuple
  {"$q": scalar}                            -> Opaque non-symbolic leaf
"""
import pyglove as pg
from hypothesis import strategies as st

from pgverif import core
from pgverif.gen import classes

KEYS = ['k', 'm', 'n', 'a.b', 'x y', 0, 1, -2]
STR_KEYS = ['k', 'm', 'n', 'p', 'q']


def build(d, symbolic=False, hooks=None):
  """Builds the Python value of a descriptor.

  `hooks` (optional, implies symbolic containers) customises construction:
  hooks.list(items) / hooks.dict(items) return the container, hooks.cls(name)
  maps a class name of the family to the class to instantiate.
  """
  if hooks is not None:
    symbolic = True
  if isinstance(d, list):
    v = [build(x, symbolic, hooks) for x in d]
    if hooks is not None:
      return hooks.list(v)
    return pg.List(v) if symbolic else v
  if isinstance(d, dict):
    if '$d' in d:
      v = {}
      for kv in d['$d']:
        if not (isinstance(kv, list) and len(kv) == 2
                and isinstance(kv[0], (str, int)) and not isinstance(kv[0], bool)
                and kv[0] != ''):
          raise core.InvalidCase(d)
        v[kv[0]] = build(kv[1], symbolic, hooks)
      if hooks is not None:
        return hooks.dict(v)
      return pg.Dict(v) if symbolic else v
    if '$o' in d:
      cls = classes.CLASSES.get(d['$o'])
      if cls is None or not isinstance(d.get('a', {}), dict):
        raise core.InvalidCase(d)
      kw = {k: build(x, symbolic, hooks) for k, x in d.get('a', {}).items()}
      if d.get('same') and len(kw) >= 2:
        # the very same (parent-less) object is passed for two arguments
        k0, k1 = list(kw)[:2]
        if isinstance(kw[k0], pg.Symbolic):
          # ... directly, or inside a plain container passed for the second argument
          kw[k1] = {True: kw[k0], 'list': [kw[k0]], 'dict': {'n': kw[k0]}}.get(d['same'], kw[k0])
      base_cls = cls
      if hooks is not None:
        cls = hooks.cls(d['$o']) or cls
      if base_cls is classes.Req and 'r' not in kw:
        return cls.partial(**kw)
      if base_cls in (classes.Typed, classes.Req):
        try:
          if _has_partial(d.get('a', {})):
            # a field value that is itself partial: build an explicitly partial object
            return cls.partial(**kw)
          return cls(**kw)
        except (TypeError, ValueError, KeyError) as e:
          raise core.InvalidCase(d) from e
      return cls(**kw)
    if '$ref' in d:
      return pg.Ref(build(d['$ref'], not d.get('plain')))   # (hooks do not reach into references)
    if '$hyper' in d:
      kind, arg = d['$hyper'], d.get('c', [])
      if not isinstance(arg, list):
        raise core.InvalidCase(d)
      cands = [build(x, symbolic, hooks) for x in arg] or [0, 1]
      if kind == 'oneof':
        return pg.oneof(cands)
      if kind == 'manyof':
        return pg.manyof(min(2, len(cands)), cands)
      if kind == 'floatv':
        return pg.floatv(0.0, 1.0)
      raise core.InvalidCase(d)
    if '$dna' in d:
      def conv(x):
        if isinstance(x, list):
          return [conv(y) for y in x]
        if isinstance(x, dict) and '$t' in x:
          return tuple(conv(y) for y in x['$t'])
        if x is None or (isinstance(x, (int, float)) and not isinstance(x, bool)):
          return x
        raise core.InvalidCase(d)
      try:
        return pg.DNA(conv(d['$dna']))
      except (ValueError, TypeError) as e:
        raise core.InvalidCase(d) from e
    if '$t' in d:
      if not isinstance(d['$t'], list):
        raise core.InvalidCase(d)
      return tuple(build(x, symbolic, hooks) for x in d['$t'])
    if '$q' in d:
      return classes.Opaque(d['$q'])
    if '$functor' in d:
      # a functor bound with 1..2 positional arguments (its other arguments stay at their defaults, unspecified)
      args = d['$functor']
      if not isinstance(args, list) or not 1 <= len(args) <= 2:
        raise core.InvalidCase(d)
      return classes.Fab(*[build(x, symbolic, hooks) for x in args])
    raise core.InvalidCase(d)
  return d


def _has_partial(d):
  """Does the descriptor contain a partial object (a Req without its required field)?"""
  if isinstance(d, list):
    return any(_has_partial(x) for x in d)
  if isinstance(d, dict):
    if d.get('$o') == 'Req' and 'r' not in d.get('a', {}):
      return True
    if '$ref' in d:
      return False
    return any(_has_partial(x) for x in d.values())
  return False


def plain(v):
  """Normalises symbolic containers to plain Python ones (for comparisons)."""
  if isinstance(v, list):
    return [plain(x) for x in (v.sym_values() if isinstance(v, pg.List) else v)]
  if isinstance(v, dict):
    if isinstance(v, pg.Dict):
      return {k: plain(x) for k, x in v.sym_items()}
    return {k: plain(x) for k, x in v.items()}
  if isinstance(v, tuple):
    return tuple(plain(x) for x in v)
  return v


SCALARS = st.one_of(
    st.integers(-3, 3), st.sampled_from(['a', 'b', '', None, True, False]),
    st.sampled_from([0.5, -1.5, 2.0]))


def typed_desc(child):
  """A valid Typed(...) object descriptor (fields with constraints, so writes can be rejected)."""
  pdesc = st.dictionaries(st.sampled_from(['x', 'y']), child, max_size=2).map(
      lambda a: {'$o': 'P', 'a': a})
  return st.fixed_dictionaries({}, optional={
      'i': st.integers(0, 9),
      's': st.sampled_from(['a', 'b']),
      'l': st.lists(st.integers(-2, 5), max_size=3),
      'd': st.fixed_dictionaries({}, optional={'k': st.one_of(st.none(), st.integers(0, 3)),
                                               'u1': st.sampled_from(['a', 'b'])}).map(
                                                   lambda m: {'$d': [[k, v] for k, v in m.items()]}),
      'o': st.one_of(st.none(), pdesc),
      'u': st.one_of(st.none(), st.integers(0, 3), st.lists(child, max_size=2)),
  }).map(lambda a: {'$o': 'Typed', 'a': a})


def vdesc(max_leaves=10, keys=None, objects=True, tuples=False, opaque=False,
          scalars=None, typed=False, extras=False, functors=False):
  keys = keys if keys is not None else KEYS
  leaves = [scalars if scalars is not None else SCALARS]
  if opaque:
    leaves.append(st.builds(lambda v: {'$q': v}, st.integers(0, 3)))
  if extras:
    small = st.one_of(st.integers(0, 3), st.lists(st.integers(0, 2), max_size=2),
                      st.just({'$d': [['k', 1]]}), st.just({'$o': 'P', 'a': {'x': [1]}}))
    leaves.append(st.one_of(
        st.builds(lambda v, p: {'$ref': v, 'plain': p},
                  st.one_of(st.just([1, 2]), st.just({'$d': [['k', [1]]]}), st.just({'$o': 'P', 'a': {'x': 1}})),
                  st.booleans()),
        st.builds(lambda k, c: {'$hyper': k, 'c': c}, st.sampled_from(['oneof', 'manyof', 'floatv']),
                  st.lists(small, min_size=2, max_size=3)),
        st.sampled_from([{'$dna': 1}, {'$dna': [0, 1]}, {'$dna': [{'$t': [0, [1, 0.5]]}, 2]}]),
        st.just({'$o': 'Req', 'a': {}}), st.just({'$o': 'Req', 'a': {'r': 1}}),
        st.sampled_from([{'$o': 'SD', 'a': {}}, {'$o': 'SD', 'a': {'x': [1, 2], 'y': {'$o': 'P', 'a': {'x': 1}}}}]),
    ))
  if functors:
    leaves.append(st.sampled_from([{'$functor': [1]}, {'$functor': [[1, 2]]}, {'$functor': [1, 5]}, {'$functor': [{'$d': [['k', 1]]}, [3]]},
                                     # (nested keys that are also names of arguments the functor leaves unspecified)
                                     {'$functor': [{'$d': [['c', 1], ['b', [2]]]}]}, {'$functor': [[{'$d': [['args', 1], ['c', {'$d': [['b', 0]]}]]}]]}]))
  leaf = st.one_of(*leaves)

  def ext(c):
    opts = [
        st.lists(c, max_size=4),
        st.lists(st.tuples(st.sampled_from(keys), c), max_size=4,
                 unique_by=lambda kv: (type(kv[0]).__name__, kv[0])).map(
                     lambda kvs: {'$d': [list(kv) for kv in kvs]}),
    ]
    if objects:
      def obj(name):
        fields = classes.FIELDS[name]
        return st.tuples(st.dictionaries(st.sampled_from(fields), c, max_size=len(fields)), st.sampled_from([False] * 7 + [True, 'list', 'dict'])).map(
            lambda t: {'$o': name, 'a': t[0], 'same': t[1]} if t[1] and len(t[0]) >= 2 else {'$o': name, 'a': t[0]})
      opts.append(st.sampled_from(classes.UNTYPED).flatmap(obj))
    if tuples:
      opts.append(st.lists(c, max_size=3).map(lambda v: {'$t': v}))
    if typed:
      opts.append(typed_desc(c))
    return st.one_of(*opts)
  return st.recursive(leaf, ext, max_leaves=max_leaves)


def container_desc(max_leaves=12, **kw):
  """A descriptor whose top level is a list, dict or object."""
  c = vdesc(max_leaves=max_leaves, **kw)
  keys = kw.get('keys') or KEYS
  opts = [
      st.lists(c, max_size=5),
      st.lists(st.tuples(st.sampled_from(keys), c), max_size=5,
               unique_by=lambda kv: (type(kv[0]).__name__, kv[0])).map(
                   lambda kvs: {'$d': [list(kv) for kv in kvs]}),
  ]
  if kw.get('objects', True):
    opts.append(st.sampled_from(classes.UNTYPED).flatmap(
        lambda name: st.dictionaries(
            st.sampled_from(classes.FIELDS[name]), c,
            max_size=len(classes.FIELDS[name])).map(lambda a: {'$o': name, 'a': a})))
  return st.one_of(*opts)
