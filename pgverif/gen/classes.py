"""Fixed family of pg.Object classes used by generators (importable by name)."""
import pyglove as pg

T = pg.typing


class Opaque:
  """Non-symbolic leaf, compared by value, picklable, deep-copyable."""

  def __init__(self, v):
    self.v = v

  def __eq__(self, other):
    return isinstance(other, Opaque) and self.v == other.v

  def __ne__(self, other):
    return not self.__eq__(other)

  def __hash__(self):
    return hash(('Opaque', self.v))

  def __repr__(self):
    return 'Opaque(%r)' % (self.v,)


class P(pg.Object):
  x: T.Any() = None
  y: T.Any() = None


class Q(P):
  pass


class R(P):
  z: T.Any() = 0


class W(pg.Object):
  """Untyped object that allows attribute assignment."""
  allow_symbolic_assignment = True
  a: T.Any() = None
  b: T.Any() = None


class NC(pg.Object):
  """Opts out of symbolic comparison: == / hash are by identity."""
  use_symbolic_comparison = False
  x: T.Any() = None
  y: T.Any() = None


class Typed(pg.Object):
  i: T.Int(min_value=0, max_value=9) = 1
  s: T.Str() = 'a'
  e: T.Enum('p', ['p', 'q', None]) = 'p'
  l: T.List(T.Int(), max_size=3) = []
  d: T.Dict([('k', T.Int().noneable()), (T.StrKey('u.*'), T.Str())]) = {}
  t: T.Tuple([T.Int(), T.Str()]).noneable() = None
  o: T.Object(P).noneable() = None
  u: T.Union([T.Int(), T.Str(), T.List(T.Any())]).noneable() = None


class HT(pg.Object):
  """Typed host for hyper placeholders (fields bind value specs to the placeholders)."""
  i: T.Int(min_value=0, max_value=9) = 0
  f: T.Float(min_value=0.0, max_value=100.0).noneable() = None
  l: T.List(T.Int(min_value=0, max_value=9), max_size=3) = []
  s: T.Str() = 'a'
  a: T.Any() = None


class HDoc(pg.Object):
  """Doc with <b>markup</b> & "quotes" </div> <!-- --> ]]>."""
  x: pg.typing.Annotated[T.Any(), 'field doc <i>x</i> & </span>'] = None
  y: pg.typing.Annotated[T.Any(), "doc 'y' <script>alert(1)</script>"] = None


class Req(pg.Object):
  """Has a required field (no default), so it can be partial."""
  r: T.Int()
  n: T.Any() = None


class SD(pg.Object):
  """Sealed by default (instances can be unsealed explicitly with seal(False))."""
  allow_symbolic_mutation = False
  x: T.Any() = None
  y: T.Any() = None


class DV(pg.Object):
  """Dict fields whose non-const keys carry a default / a frozen value."""
  d: T.Dict([('k', T.Int(default=1)), (T.StrKey('u.*'), T.Int(default=5))]) = {}
  f: T.Dict([(T.StrKey(), T.Int().freeze(1))]) = {}


class DK(pg.Object):
  """Dict-typed fields whose keys are not fixed by the schema (any key / any str key)."""
  m: T.Dict() = {}
  s: T.Dict([(T.StrKey(), T.Any())]) = {}


@pg.functor()
def Fab(a, b=2, *args, c=3):      # pylint: disable=invalid-name,keyword-arg-before-vararg
  """A functor with defaulted arguments (bound positionally by the generators; b / c usually stay unspecified)."""
  return (a, b, args, c)


CLASSES = {c.__name__: c for c in (P, Q, R, W, NC, Typed, Req, HT, HDoc, DK, SD, DV)}
UNTYPED = ('P', 'Q', 'R', 'W')
FIELDS = {'P': ('x', 'y'), 'Q': ('x', 'y'), 'R': ('x', 'y', 'z'), 'W': ('a', 'b'),
          'NC': ('x', 'y'), 'HDoc': ('x', 'y'), 'Typed': ('i', 's', 'e', 'l', 'd', 't', 'o', 'u'), 'Req': ('r', 'n'), 'DK': ('m', 's'), 'SD': ('x', 'y'), 'DV': ('d', 'f')}
