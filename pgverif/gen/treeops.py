"""Operation programs over forests of symbolic trees (shared by C01/C07/C08/C09).

An op is a JSON dict:
  {"op": name, "t": target index, "i": int, "j": int, "s": int, "k": key index,
   "v": value descriptor, "src": None|int, "sv": bool, "nf": bool, "m": int}
State-dependent choices (target node, source node) are resolved modulo the
current pre-order node list, so a case stays meaningful under shrinking.
"""
import copy

import pyglove as pg
from hypothesis import strategies as st

from pgverif import core
from pgverif.gen import values

LIST_OPS = ['append', 'insert', 'extend', 'pop', 'remove', 'delitem', 'delslice',
            'setitem', 'setslice', 'reverse', 'sort', 'clear', 'iadd', 'imul',
            'rebind_l']
DICT_OPS = ['dsetitem', 'dsetattr', 'ddelitem', 'ddelattr', 'dpop', 'popitem',
            'update', 'setdefault', 'dclear', 'ior', 'rebind_d']
OBJ_OPS = ['osetattr', 'rebind_o']
ANY_OPS = ['rebind_path', 'rebind_multi', 'rebind_fn', 'clone', 'json', 'deepcopy', 'copy']
ALL_OPS = LIST_OPS + DICT_OPS + OBJ_OPS + ANY_OPS
STRUCTURAL = set(ALL_OPS) - {'clone', 'json', 'deepcopy', 'copy'}
INPLACE_OPS = {'iadd', 'imul', 'ior'}

KEYS = values.KEYS


def op_strategy(ops=None, value=None, max_target=40):
  value = value if value is not None else values.vdesc(max_leaves=6)
  return st.fixed_dictionaries({
      'op': st.sampled_from(ops or ALL_OPS),
      't': st.integers(0, max_target),
      'i': st.integers(-7, 7),
      'j': st.one_of(st.none(), st.integers(-7, 7)),
      's': st.one_of(st.none(), st.integers(-3, 3)),
      'k': st.integers(0, len(KEYS) - 1),
      'v': value,
      'src': st.one_of(st.none(), st.none(), st.integers(0, max_target)),
      'sv': st.booleans(),
      'own': st.sampled_from([False, False, False, False, False, True]),
      'mv': st.sampled_from([False] * 9 + [True]),
      'nf': st.sampled_from([False, False, False, True]),
      'm': st.integers(0, 5),
      'locs': st.lists(st.fixed_dictionaries({
          'i': st.integers(0, 30), 'm': st.integers(0, 5), 'v': value}), max_size=3),
  })


def children(n):
  return [(k, v) for k, v in n.sym_items()]


def preorder(root):
  out = []

  def walk(n):
    out.append(n)
    for _, v in n.sym_items():
      if isinstance(v, pg.Symbolic):
        walk(v)
  walk(root)
  return out


def forest_nodes(roots):
  out = []
  for r in roots:
    out.extend(preorder(r))
  return out


def kind_of(n):
  if isinstance(n, pg.List):
    return 'list'
  if isinstance(n, pg.Dict):
    return 'dict'
  return 'obj'


def applicable(name, n):
  if name in LIST_OPS:
    return isinstance(n, pg.List)
  if name in DICT_OPS:
    return isinstance(n, pg.Dict)
  if name in OBJ_OPS:
    return isinstance(n, pg.Object)
  return True


def resolve_target(nodes, name, t):
  """First node at or after index t (wrapping) the op applies to."""
  n = len(nodes)
  for d in range(n):
    cand = nodes[(t + d) % n]
    if applicable(name, cand):
      return cand
  return None


def is_ancestor_or_self(a, n):
  while n is not None:
    if n is a:
      return True
    n = n.sym_parent
  return False


def _get(op, key, default=None):
  v = op.get(key, default) if isinstance(op, dict) else default
  return v


def _int(op, key, default=0):
  v = _get(op, key, default)
  if v is None:
    return default
  if isinstance(v, bool) or not isinstance(v, int):
    raise core.InvalidCase(op)
  return v


class Outcome:
  __slots__ = ('name', 'target', 'status', 'value', 'exc', 'new_root',
               'moved_root', 'used_src', 'detail', 'pre_sym_child', 'pre_deep', 'holders')

  def __init__(self, name):
    self.name = name
    self.target = None
    self.status = 'skip'   # 'ok' | 'exc' | 'skip'
    self.value = None
    self.exc = None
    self.new_root = None
    self.moved_root = None
    self.used_src = False
    self.detail = ''
    self.pre_sym_child = False
    self.pre_deep = False
    self.holders = []       # containers this op writes into


def apply_op(roots, op, allow_move=True, direct_inplace=False, prebuilt=None, builder=None):
  """Applies one op to the forest `roots` (list, mutated for new/moved roots)."""
  if not isinstance(op, dict) or not isinstance(op.get('op'), str):
    raise core.InvalidCase(op)
  name = op['op']
  if name not in ALL_OPS:
    raise core.InvalidCase(op)
  out = Outcome(name)
  nodes = forest_nodes(roots)
  if not nodes:
    return out
  n = resolve_target(nodes, name, _int(op, 't'))
  if n is None:
    return out
  out.target = n
  out.holders = [n]
  kids = [v for _, v in n.sym_items() if isinstance(v, pg.Symbolic)]
  out.pre_sym_child = bool(kids)
  out.pre_deep = n.sym_parent is not None or any(
      isinstance(w, pg.Symbolic) for v in kids for _, w in v.sym_items())
  i = _int(op, 'i')
  j = _get(op, 'j')
  s = _get(op, 's')
  for x in (j, s):
    if x is not None and (isinstance(x, bool) or not isinstance(x, int)):
      raise core.InvalidCase(op)
  key = KEYS[_int(op, 'k') % len(KEYS)]
  m = _int(op, 'm')

  # The value: a fresh one, or an existing node of the forest ("move").
  src = _get(op, 'src')
  val = None
  moved_root = None
  if allow_move and src is not None and isinstance(src, int) and not isinstance(src, bool):
    cand = nodes[src % len(nodes)]
    # Excluded by construction (see DESIGN C01 L): a parent-less root inserted
    # into its own subtree makes the tree cyclic.
    if not (cand.sym_parent is None and is_ancestor_or_self(cand, n)):
      val = cand
      out.used_src = True
      if cand.sym_parent is None:
        moved_root = cand
  if _get(op, 'own') and isinstance(n, pg.List) and len(n) and allow_move:
    # the value is the target list's own child at the very index the op addresses
    idx = i % len(n)
    cand = n.sym_getattr(idx)
    if isinstance(cand, pg.Symbolic):
      val, i = cand, idx
      out.used_src = True
  if _get(op, 'mv') and name in ('setitem', 'insert', 'extend', 'iadd', 'dsetitem', 'dsetattr', 'osetattr',
                                 'update', 'ior', 'setdefault', 'rebind_o'):
    # writing MISSING_VALUE is the accessor form of "delete / reset to default"
    # (not inside a slice assignment: the marker then stands for a deletion in the middle of the new items, and
    # the event reports the positions of the intermediate list, as for a rebind batch - see DESIGN 5.26)
    val = pg.MISSING_VALUE if name not in ('extend', 'iadd') else [1, pg.MISSING_VALUE, 2]
    src = None
    out.used_src = True      # (no fresh value is built)
  sv_flag = bool(_get(op, 'sv'))
  _b = builder if builder is not None else (lambda x: values.build(x, symbolic=sv_flag))
  # rebind(..., skip_notification=True) when the op asks for it
  rkw = {'skip_notification': True} if _get(op, 'sk') else {}
  if not out.used_src:
    if prebuilt is not None:
      val = prebuilt()     # built by the caller outside any scope it has entered
    else:
      val = _b(_get(op, 'v'))

  def as_list(v):
    if isinstance(v, list):
      return v
    return [v]

  def as_dict(v):
    if isinstance(v, dict) and not isinstance(v, pg.Object):
      return v
    return {key: v}

  nf = bool(_get(op, 'nf'))
  try:
    with pg.notify_on_change(not nf):
      r = None
      if name == 'append':
        n.append(val)
      elif name == 'insert':
        n.insert(i, val)
      elif name == 'extend':
        n.extend(as_list(val))
      elif name == 'pop':
        r = n.pop() if m == 0 else n.pop(i)
      elif name == 'remove':
        r = n.remove(val if m % 2 or len(n) == 0 else n[i % len(n)])
      elif name == 'delitem':
        del n[i]
      elif name == 'delslice':
        del n[slice(i, j, s)]
      elif name == 'setitem':
        n[i] = val
      elif name == 'setslice':
        n[slice(i, j, s)] = as_list(val)
      elif name == 'reverse':
        n.reverse()
      elif name == 'sort':
        n.sort(key=lambda x: (str(type(x)), str(x)), reverse=bool(m % 2))
      elif name == 'clear':
        n.clear()
      elif name in ('iadd', 'imul', 'ior'):
        arg = as_list(val) if name == 'iadd' else (m % 4 if name == 'imul' else as_dict(val))
        p = n.sym_parent
        if direct_inplace:
          # the operator method itself (no re-assignment of the slot that holds n)
          if name == 'iadd':
            n.__iadd__(arg)
          elif name == 'imul':
            n.__imul__(arg)
          else:
            n.__ior__(arg)
        elif p is None:
          idx = [ri for ri, rt in enumerate(roots) if rt is n][0]
          if name == 'iadd':
            roots[idx] += arg
          elif name == 'imul':
            roots[idx] *= arg
          else:
            roots[idx] |= arg
        else:
          k = n.sym_path.key
          holder = p
          if isinstance(p, pg.Object):
            # statement form on an attribute: obj.x += ...
            if name == 'iadd':
              setattr(p, k, _iop(getattr(p, k), '+', arg))
            elif name == 'imul':
              setattr(p, k, _iop(getattr(p, k), '*', arg))
            else:
              setattr(p, k, _iop(getattr(p, k), '|', arg))
          elif name == 'iadd':
            holder[k] += arg
          elif name == 'imul':
            holder[k] *= arg
          else:
            holder[k] |= arg
      elif name == 'rebind_l':
        idx = abs(i) if m % 2 else i
        if m in (0, 1):
          n.rebind({idx: val}, **rkw)
        elif m in (2, 3):
          n.rebind({idx: pg.Insertion(val)}, **rkw)
        elif m == 4:
          n.rebind({idx: pg.MISSING_VALUE}, **rkw)
        else:
          # a batch over this list mixing replacements, insertions and deletions
          def item(mode, vv):
            return vv if mode == 0 else (pg.Insertion(vv) if mode == 1 else pg.MISSING_VALUE)
          upd = {abs(i) % (len(n) + 1): item(_int(op, 'k') % 3, val)}
          for e in (_get(op, 'locs') or []):
            if not isinstance(e, dict):
              raise core.InvalidCase(op)
            ei = _int(e, 'i') % (len(n) + 1)
            if ei not in upd:
              upd[ei] = item(_int(e, 'm') % 3,
                             _b(e.get('v')))
          n.rebind(upd, **rkw)
      elif name == 'dsetitem':
        n[key] = val
      elif name == 'dsetattr':
        setattr(n, str(key), val)
      elif name == 'ddelitem':
        del n[key]
      elif name == 'ddelattr':
        delattr(n, str(key))
      elif name == 'dpop':
        r = n.pop(key) if m % 2 else n.pop(key, None)
      elif name == 'popitem':
        r = n.popitem()
      elif name == 'update':
        if m == 5:
          # a mapping and keyword arguments in one call
          n.update(as_dict(val), **{'zk': i, str(key) if isinstance(key, str) and key.isidentifier() else 'zk2': m})
        elif m % 3 == 0:
          n.update(as_dict(val))
        elif m % 3 == 1:
          n.update(list(as_dict(val).items()))
        else:
          n.update(**{str(kk): vv for kk, vv in as_dict(val).items()})
      elif name == 'setdefault':
        r = n.setdefault(key, val)
      elif name == 'dclear':
        n.clear()
      elif name == 'rebind_d':
        if m == 4:
          n.rebind({key: pg.MISSING_VALUE}, **rkw)
        elif m == 5:
          ks = list(n.sym_keys())
          upd = {key: val}
          if ks:
            upd[ks[i % len(ks)]] = pg.MISSING_VALUE
          n.rebind(upd, **rkw)
        else:
          n.rebind({key: val}, **rkw)
      elif name == 'osetattr':
        ks = list(n.sym_init_args.keys()) or ['x']
        setattr(n, ks[i % len(ks)], val)
      elif name == 'rebind_o':
        ks = [k for k, _ in n.sym_items()] or ['x']
        n.rebind(**{ks[i % len(ks)]: val}, **rkw)
      elif name in ('rebind_path', 'rebind_multi'):
        sub = preorder(n)
        locs, llocs = [], []
        for d in sub:
          for k, _ in d.sym_items():
            loc = pg.KeyPath(k, d.sym_path)
            locs.append((loc, d))
            if isinstance(d, pg.List):
              llocs.append((loc, d))
        if not locs:
          out.status = 'skip'
          return out

        out.holders = []

        def entry(ii, mm, vv):
          pool = llocs if (llocs and mm % 2 == 0) else locs
          loc, holder = pool[ii % len(pool)]
          out.holders.append(holder)
          rel = loc - n.sym_path
          if mm == 4:
            vv = pg.MISSING_VALUE
          elif mm in (2, 0) and isinstance(holder, pg.List):
            vv = pg.Insertion(vv)
          return rel, vv
        if name == 'rebind_path':
          rel, vv = entry(i, m, val)
          n.rebind({rel: vv}, **rkw)
        else:
          upd = {}
          rel, vv = entry(i, m, val)
          upd[rel] = vv
          for e in (_get(op, 'locs') or []):
            if not isinstance(e, dict):
              raise core.InvalidCase(op)
            rel, vv = entry(_int(e, 'i'), _int(e, 'm'),
                            _b(e.get('v')))
            if rel not in upd:
              upd[rel] = vv
          n.rebind(upd, **rkw)
      elif name == 'rebind_fn':
        want = m - 2
        out.holders = list(preorder(n))     # may write anywhere below the target

        def fn(k, v, p):
          del p
          if isinstance(v, int) and not isinstance(v, bool) and v == want:
            return copy.deepcopy(values.build(_get(op, 'v')) if builder is None else builder(_get(op, 'v')))
          return v
        n.rebind(fn, raise_on_no_change=False, **rkw)
      elif name == 'clone':
        out.new_root = n.clone(deep=bool(m % 2))
      elif name == 'json':
        out.new_root = pg.from_json(pg.to_json(n))
      elif name == 'deepcopy':
        out.new_root = copy.deepcopy(n)
      elif name == 'copy':
        out.new_root = copy.copy(n)
      out.status = 'ok'
      out.value = r
  except RecursionError:
    raise
  except Exception as e:   # pylint: disable=broad-except
    out.status = 'exc'
    out.exc = e
  if out.new_root is not None:
    roots.append(out.new_root)
  if moved_root is not None and moved_root.sym_parent is not None:
    out.moved_root = moved_root
    for ri, rt in enumerate(roots):
      if rt is moved_root:
        del roots[ri]
        break
  return out


def _iop(x, sym, arg):
  if sym == '+':
    x += arg
  elif sym == '*':
    x *= arg
  else:
    x |= arg
  return x


def describe(op):
  keep = {k: v for k, v in op.items() if v not in (None, False)}
  return keep
