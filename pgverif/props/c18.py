"""C18 — symbolized callables keep Python call semantics (differential against the interpreter)."""
import copy
import inspect
import itertools

import pyglove as pg
from hypothesis import strategies as st

from pgverif import core

ID = 'C18'
RULE = ('a generated signature (0-3 positional-or-keyword parameters with trailing defaults, optional *rest, 0-2 keyword-only '
        'parameters with/without defaults, optional **kw, optional annotations) materialised as a def / a class __init__ whose '
        'body returns everything it received; wrapped by pg.functor(), pg.symbolize (function or class), pg.wrap; a call pattern: '
        'construction-time positional/keyword arguments, then late binding steps (rebind, attribute assignment, del, batched rebind '
        'incl. a nested path inside an argument value), then a call with positional/keyword arguments and override_args / '
        'ignore_extra_args, directly or after clone / deep clone / JSON round trip. The reference is the original callable invoked by '
        'the interpreter with the effective arguments; result or error kind must agree; sym_init_args, specified_args and '
        'inspect.signature(cls.__init__) must describe the same arguments. Non-trivial: the signature has *rest, keyword-only '
        'parameters or defaults, and the pattern binds in >=2 stages or is an error pattern')
ASSUMPTIONS = [
    'the name of the variadic positional parameter is used as a keyword only at construction of wrapped classes whose __init__ has '
    'no **kw (Python: TypeError); functors and pg.Object classes give that name a meaning of their own (binding *args by name), and '
    'with **kw present a wrapped class takes `rest=...` as the variadic binding where Python puts it into **kw - observed, not claimed',
    'effective arguments: construction-time arguments, updated by late binding steps in order, updated by call-time arguments; a '
    'call-time value for an already specified argument is an error unless override_args is set (the documented rule), modelled as '
    'the TypeError the interpreter raises for a doubly supplied argument',
    'call-time positional arguments are matched to parameters from position 0 (documented late binding); call-time variadic '
    'positionals replace construction-time ones when non-empty',
    'positional-only parameters are not generated (the functor accepts them by keyword, a documented leniency); parameters '
    'are not annotated with types the values violate (annotation enforcement is opt-in and not part of the statement)',
    'error kind = the exception class (TypeError for every binding error); messages are not compared',
    'ignore_extra_args=True is modelled as dropping surplus call-time positionals / unknown call-time keywords before the call',
]
BUDGET = {'quick': 6000, 'thorough': 200000}

POS = ['a', 'b', 'c']
KWO = ['k1', 'k2']
VARARGS, VARKW = 'rest', 'kw'
EXTRA = ['e', 'f']
NAMES = POS + KWO + EXTRA
KINDS = ['functor', 'symbolize_fn', 'symbolize_cls', 'wrap_cls', 'object_cls']
MISSING = pg.MISSING_VALUE

_CACHE = {}


# ---------------------------------------------------------------------------------------------
# signatures


def _check_sig(sig):
  if not isinstance(sig, dict):
    raise core.InvalidCase(sig)
  npos, ndef = sig.get('npos', 0), sig.get('ndef', 0)
  kwo = sig.get('kwo', [])
  for x in (npos, ndef):
    if isinstance(x, bool) or not isinstance(x, int):
      raise core.InvalidCase(sig)
  if not (0 <= npos <= len(POS)) or not (0 <= ndef <= npos) or not isinstance(kwo, list) or len(kwo) > len(KWO):
    raise core.InvalidCase(sig)
  for x in kwo:
    if not isinstance(x, bool):
      raise core.InvalidCase(sig)
  return npos, ndef, [bool(x) for x in kwo], bool(sig.get('var')), bool(sig.get('varkw')), bool(sig.get('ann'))


def _default(name):
  # (the default of `c` is a container: a write inside it binds the argument)
  return copy.deepcopy({'a': 10, 'b': 20, 'c': {'x': 30}, 'k1': 40, 'k2': 50}[name])


def materialise(sig, kind=''):
  """Returns (function, plain class, source) with the signature; cached per signature and wrapper kind.

  (One callable per wrapper kind: two symbolic classes made from the same function would share a
  serialization key.)
  """
  npos, ndef, kwo, var, varkw, ann = _check_sig(sig)
  key = (npos, ndef, tuple(kwo), var, varkw, ann, kind)
  if key in _CACHE:
    return _CACHE[key]
  params = []
  recv = []
  for i in range(npos):
    n = POS[i]
    a = ': int' if ann and i == 0 else (': typing.Any' if ann else '')
    params.append('%s%s%s' % (n, a, (' = %r' % _default(n)) if i >= npos - ndef else ''))
    recv.append(n)
  if var:
    params.append('*' + VARARGS)
    recv.append('tuple(%s)' % VARARGS)
  elif kwo:
    params.append('*')
  for i, has_default in enumerate(kwo):
    n = KWO[i]
    a = ': int' if ann else ''
    params.append('%s%s%s' % (n, a, (' = %r' % _default(n)) if has_default else ''))
    recv.append(n)
  if varkw:
    params.append('**' + VARKW)
    recv.append('tuple(sorted(%s.items()))' % VARKW)
  tag = 'n%dd%dk%sv%dw%da%d%s' % (npos, ndef, ''.join('1' if x else '0' for x in kwo), var, varkw, ann, kind[:1] + kind[-3:])
  body = '(%s)' % ''.join(r + ', ' for r in recv)
  src = ('import typing\n'
         'def fn_%s(%s):\n  return %s\n'
         'class K_%s:\n  def __init__(%s):\n    self.t = %s\n') % (
             tag, ', '.join(params), body, tag, ', '.join(['self'] + params), body)
  ns = {'__name__': 'pgverif.props.c18'}
  exec(compile(src, '<c18:%s>' % tag, 'exec'), ns)   # pylint: disable=exec-used
  out = (ns['fn_' + tag], ns['K_' + tag], src)
  _CACHE[key] = out
  return out


_WRAPPED = {}


def _object_class(npos, ndef, kwo, var, varkw, name):
  """A pg.Object subclass whose generated __init__ has the signature (fields + init_arg_list)."""
  T = pg.typing
  fields, init_args = [], []
  for i in range(npos):
    n = POS[i]
    fields.append((n, T.Any(default=_default(n)) if i >= npos - ndef else T.Any()))
    init_args.append(n)
  if var:
    fields.append((VARARGS, T.List(T.Any(), default=[])))
    init_args.append('*' + VARARGS)
  for i, has_default in enumerate(kwo):
    n = KWO[i]
    fields.append((n, T.Any(default=_default(n)) if has_default else T.Any()))
  if varkw:
    fields.append((T.StrKey(), T.Any()))
  cls = type('O_' + name[3:], (pg.Object,), {'__module__': 'pgverif.props.c18'})
  return pg.members(fields, init_arg_list=init_args)(cls)


def _state_of(obj, kind, model):
  """What the instance holds, in the shape the reference callable returns."""
  if kind != 'object_cls':
    return plain(obj.t)
  args = {k: plain(v) for k, v in obj.sym_init_args.sym_items()}
  out = [args.get(n, MISSING) for n in model.pos]
  if model.var:
    out.append(tuple(args.get(VARARGS, [])))
  out.extend(args.get(n, MISSING) for n in model.kwonly)
  if model.varkw:
    out.append(tuple(sorted((k, v) for k, v in args.items() if k not in model.named and k != VARARGS)))
  return tuple(out)


def wrapped(sig, kind):
  npos, ndef, kwo, var, varkw, ann = _check_sig(sig)
  key = (npos, ndef, tuple(kwo), var, varkw, ann, kind)
  if key not in _WRAPPED:
    fn, cls, _ = materialise(sig, kind)
    if kind == 'functor':
      w = pg.functor()(fn)
    elif kind == 'symbolize_fn':
      w = pg.symbolize(fn)
    elif kind == 'symbolize_cls':
      w = pg.symbolize(cls)
    elif kind == 'wrap_cls':
      w = pg.wrap(cls)
    elif kind == 'object_cls':
      w = _object_class(npos, ndef, kwo, var, varkw, fn.__name__)
    else:
      raise core.InvalidCase(kind)
    _WRAPPED[key] = w
  return _WRAPPED[key]


# ---------------------------------------------------------------------------------------------
# values


def val(d):
  """Descriptor -> (python value for the reference, value for the library)."""
  if isinstance(d, list):
    return [val(x) for x in d]
  if isinstance(d, dict):
    if set(d) != {'$d'} or not isinstance(d['$d'], list):
      raise core.InvalidCase(d)
    out = {}
    for kv in d['$d']:
      if not (isinstance(kv, list) and len(kv) == 2 and isinstance(kv[0], str) and kv[0]):
        raise core.InvalidCase(d)
      out[kv[0]] = val(kv[1])
    return out
  if d is None or isinstance(d, (bool, int, str)) or isinstance(d, float):
    return d
  raise core.InvalidCase(d)


def plain(v):
  if isinstance(v, (list, tuple)):
    items = v.sym_values() if isinstance(v, pg.List) else v
    out = [plain(x) for x in items]
    return tuple(out) if isinstance(v, tuple) else out
  if isinstance(v, dict):
    items = v.sym_items() if isinstance(v, pg.Dict) else v.items()
    return {k: plain(x) for k, x in items}
  return v


VALUES = st.one_of(st.integers(0, 9), st.sampled_from(['s', 't']), st.none(),
                   st.lists(st.integers(0, 3), max_size=2), st.just([1, 2]), st.just({'$d': [['x', 1]]}))


def _kwargs(names, max_size=3):
  return st.lists(st.tuples(st.sampled_from(names), VALUES), max_size=max_size,
                  unique_by=lambda kv: kv[0]).map(lambda kvs: [list(kv) for kv in kvs])


def strategy(tier):
  del tier
  sig = st.integers(0, 3).flatmap(lambda npos: st.fixed_dictionaries({
      'npos': st.just(npos), 'ndef': st.integers(0, npos),
      'kwo': st.lists(st.booleans(), max_size=2), 'var': st.booleans(), 'varkw': st.booleans(),
      'ann': st.sampled_from([False, False, True])}))

  def rest_of(sg):
    npos = sg['npos']
    own = POS[:npos] + KWO[:len(sg['kwo'])]
    # mostly names the callable takes; sometimes a foreign one
    names = (own * 3 if own else []) + (EXTRA * 2 if sg['varkw'] else EXTRA[:1]) + ['zz'] + [n for n in NAMES if n not in own][:1]
    max_args = npos + (2 if sg['var'] else 0)
    args = st.one_of(st.lists(VALUES, max_size=max_args), st.lists(VALUES, max_size=max_args),
                     st.lists(VALUES, max_size=max_args), st.lists(VALUES, max_size=max_args + 1))
    late_names = own + (EXTRA if sg['varkw'] else []) or ['a']
    nested = [n + '[0]' for n in ('a', 'k1') if n in own] + (['b.x'] if 'b' in own else []) + (['rest[0]'] if sg['var'] else []) + (
        ['c.x', 'c.x'] if 'c' in own else [])
    late = st.one_of(
        st.fixed_dictionaries({'how': st.sampled_from(['rebind', 'setattr', 'del', 'del']), 'name': st.sampled_from(late_names), 'v': VALUES}),
        st.fixed_dictionaries({'how': st.just('rebind_rest'), 'v': st.lists(st.integers(0, 3), max_size=2)}),
        st.fixed_dictionaries({'how': st.just('batch'), 'items': st.lists(
            st.tuples(st.sampled_from(late_names + nested * 2), VALUES), min_size=1, max_size=3,
            unique_by=lambda kv: kv[0]).map(lambda kvs: [list(kv) for kv in kvs])}))
    return st.fixed_dictionaries({
        'sig': st.just(sg),
        'kind': st.sampled_from(KINDS + ['functor', 'functor']),
        'init': st.fixed_dictionaries({'args': args, 'kwargs': _kwargs(names, 2)}),
        'late': st.lists(late, max_size=3),
        'call': st.fixed_dictionaries({'args': args, 'kwargs': _kwargs(names, 2)}),
        'ov': st.sampled_from(['none', 'none', 'ctor', 'call']),
        'ignore': st.sampled_from([False, False, False, True]),
        'after': st.sampled_from(['none', 'none', 'clone', 'deepclone', 'json']),
        'tidy': st.sampled_from([True, True, False]),
        'tc_off': st.sampled_from([False, False, False, False, True]),
    })

  def tidy(c):
    """In 2 of 3 cases, drop keyword arguments that collide with positional ones or that the callable does not take."""
    if c.pop('tidy'):
      sg = c['sig']
      own = POS[:sg['npos']] + KWO[:len(sg['kwo'])]
      for part in (c['init'], c['call']):
        taken = set(POS[:min(len(part['args']), sg['npos'])])
        part['kwargs'] = [kv for kv in part['kwargs'] if kv[0] not in taken and (kv[0] in own or (sg['varkw'] and kv[0] in EXTRA))]
        if not sg['var']:
          part['args'] = part['args'][:sg['npos']]
    return c
  return sig.flatmap(rest_of).map(tidy)


# ---------------------------------------------------------------------------------------------
# the reference


class Model:
  """Effective arguments of one symbolic callable (named: dict, rest: list or None)."""

  def __init__(self, sig):
    self.npos, self.ndef, self.kwo, self.var, self.varkw, _ = _check_sig(sig)
    self.pos = POS[:self.npos]
    self.kwonly = KWO[:len(self.kwo)]
    self.named = self.pos + self.kwonly
    self.spec = {}          # specified named arguments and **kw entries, in binding order
    self.rest = None        # specified variadic positionals

  def has_default(self, name):
    if name in self.pos:
      return self.pos.index(name) >= self.npos - self.ndef
    if name in self.kwonly:
      return self.kwo[self.kwonly.index(name)]
    return False

  def accepts_name(self, name):
    return name in self.named or (self.varkw and name not in (VARARGS, VARKW))

  def construct(self, args, kwargs):
    """Returns 'TypeError' or None."""
    if len(args) > self.npos and not self.var:
      return 'TypeError'
    for i, v in enumerate(args[:self.npos]):
      self.spec[self.pos[i]] = v
    if len(args) > self.npos:
      self.rest = list(args[self.npos:])
    for k, v in kwargs:
      if k in self.spec or not self.accepts_name(k):
        return 'TypeError'
      self.spec[k] = v
    return None

  def reference_call(self, fn, spec, rest):
    """Calls the original with the effective arguments; returns ('ok', value) or ('exc', class name)."""
    pos_vals = []
    kw = {}
    gap = False
    for n in self.pos:
      if n in spec:
        if gap:
          kw[n] = spec[n]
        else:
          pos_vals.append(spec[n])
      elif self.has_default(n) and rest and not gap:
        pos_vals.append(_default(n))      # variadic positionals follow: the default has to be spelled out
      else:
        gap = True
    if rest and gap:
      return 'exc', 'TypeError'           # a required positional is missing in front of variadic positionals
    for n, v in spec.items():
      if n not in self.pos:
        kw[n] = v
    try:
      return 'ok', plain(fn(*pos_vals, *(rest or []), **kw))
    except TypeError:
      return 'exc', 'TypeError'


def _sig_params(fn, skip_self):
  out = []
  for i, p in enumerate(inspect.signature(fn).parameters.values()):
    if skip_self and i == 0:
      continue
    out.append((p.name, str(p.kind), None if p.default is inspect.Parameter.empty else plain(p.default)))
  return out


def _run(f):
  try:
    return 'ok', f()
  except RecursionError:
    raise
  except Exception as e:   # pylint: disable=broad-except
    return 'exc', type(e).__name__, e


# ---------------------------------------------------------------------------------------------


def execute(case):
  res = core.Result()
  if not isinstance(case, dict) or case.get('kind') not in KINDS:
    raise core.InvalidCase(case)
  sig, kind = case.get('sig'), case['kind']
  model = Model(sig)
  fn, cls, src = materialise(sig, kind)
  W = wrapped(sig, kind)
  is_fn = kind in ('functor', 'symbolize_fn')
  ref_callable = fn if is_fn else (lambda *a, **k: cls(*a, **k).t)
  init = case.get('init') or {}
  call = case.get('call') or {}
  for part in (init, call):
    if not isinstance(part, dict) or not isinstance(part.get('args', []), list) or not isinstance(part.get('kwargs', []), list):
      raise core.InvalidCase(case)
    for kv in part.get('kwargs', []):
      if not (isinstance(kv, list) and len(kv) == 2 and isinstance(kv[0], str) and kv[0].isidentifier()
              and kv[0] not in (VARKW, 'self', 'override_args', 'ignore_extra_args', 'root_path', 'allow_partial', 'sealed')):
        raise core.InvalidCase(case)
      if kv[0] == VARARGS and (part is call or case.get('kind') in ('functor', 'symbolize_fn', 'object_cls')
                               or (case.get('sig') or {}).get('varkw')):
        # (binding the variadic positionals by name is an extension of functors and of pg.Object classes; for a
        # wrapped class without **kw the name of *rest is not a keyword the class takes, and Python says so)
        raise core.InvalidCase(case)
    if len({kv[0] for kv in part.get('kwargs', [])}) != len(part.get('kwargs', [])):
      raise core.InvalidCase(case)
  ov = case.get('ov', 'none')
  after = case.get('after', 'none')
  ignore = bool(case.get('ignore'))
  if ov not in ('none', 'ctor', 'call') or after not in ('none', 'clone', 'deepclone', 'json'):
    raise core.InvalidCase(case)
  if after == 'json' and ov == 'ctor':
    ov = 'call'        # constructor flags are not arguments and are not serialized
  sigd = {'kind': kind}
  shape_interesting = model.var or bool(model.kwonly) or model.ndef > 0
  stages = 0

  # the generated signature
  want_params = _sig_params(fn, skip_self=False)
  got = _run(lambda: _sig_params(W.__init__, skip_self=True))
  if kind == 'object_cls' and got[0] == 'ok':
    # the generated __init__ names its catch-all parameter itself
    want_params = [(('**', k, d) if k == 'VAR_KEYWORD' else (n, k, d)) for n, k, d in want_params]
    got = ('ok', [(('**', k, d) if k == 'VAR_KEYWORD' else (n, k, d)) for n, k, d in got[1]])
  if got[0] != 'ok' or got[1] != want_params:
    return res.violate('inspect.signature(%s.__init__) gives %r, the original has %r; source:\n%s' % (
        kind, got[1:], want_params, src), law='signature', **sigd)

  # construction
  cargs = [val(x) for x in init.get('args', [])]
  ckw = [(k, val(v)) for k, v in init.get('kwargs', [])]
  extra_ctor = {}
  if is_fn and ov == 'ctor':
    extra_ctor['override_args'] = True
  if is_fn and ignore:
    extra_ctor['ignore_extra_args'] = True
  want_err = model.construct(cargs, ckw)
  if not is_fn:
    # a class is executed at construction: the reference is the interpreter itself
    rc = _run(lambda: plain(ref_callable(*cargs, **dict(ckw))))
    got = _run(lambda: W(*cargs, **dict(ckw)))
    what = 'construct %s(*%r, **%r)' % (kind, cargs, dict(ckw))
    if rc[0] == 'exc':
      res.label('ctor-error')
      if shape_interesting:
        res.nontrivial = True
      if got[0] != 'exc' or got[1] != rc[1]:
        return res.violate('%s: the original raises %s, the symbolic class %s; source:\n%s' % (
            what, rc[1], 'returns an object' if got[0] == 'ok' else 'raises %s (%s)' % (got[1], got[2]), src),
                           law='ctor-error-kind', **sigd)
      return res
    if got[0] != 'ok':
      return res.violate('%s: the original accepts it, the symbolic class raises %s (%s); source:\n%s' % (
          what, got[1], got[2], src), law='ctor-rejected', **sigd)
    obj = got[1]
    if _state_of(obj, kind, model) != rc[1]:
      return res.violate('%s: the original received %r, the symbolic class %r; source:\n%s' % (what, rc[1], _state_of(obj, kind, model), src),
                         law='ctor-result', **sigd)
    stages += 1
  else:
    got = _run(lambda: W(*cargs, **dict(ckw), **extra_ctor))
    what = 'construct %s(*%r, **%r)' % (kind, cargs, dict(ckw))
    if want_err is not None:
      res.label('ctor-error')
      if shape_interesting:
        res.nontrivial = True
      if got[0] != 'exc' or got[1] != want_err:
        return res.violate('%s: binding these arguments is a %s for the original, the functor %s; source:\n%s' % (
            what, want_err, 'accepts them' if got[0] == 'ok' else 'raises %s (%s)' % (got[1], got[2]), src),
                           law='ctor-error-kind', **sigd)
      return res
    if got[0] != 'ok':
      return res.violate('%s: a valid partial binding, the functor raises %s (%s); source:\n%s' % (what, got[1], got[2], src),
                         law='ctor-rejected', **sigd)
    obj = got[1]
    if cargs or ckw:
      stages += 1

  # late binding
  for step in case.get('late') or []:
    if not isinstance(step, dict):
      raise core.InvalidCase(case)
    how = step.get('how')
    if how in ('rebind', 'setattr', 'del'):
      name = step.get('name')
      if not isinstance(name, str) or name not in NAMES:
        raise core.InvalidCase(case)
      if not model.accepts_name(name) or (name not in model.named and how != 'rebind'):
        continue      # no counterpart in Python for binding a name the callable does not take
      if how == 'del' and (not is_fn or name not in model.spec):
        continue
      v = val(step.get('v'))
      if how == 'rebind':
        r = _run(lambda: obj.rebind(**{name: v}))
        model.spec[name] = v
      elif how == 'setattr':
        if not is_fn:
          continue
        r = _run(lambda: setattr(obj, name, v))
        model.spec[name] = v
      else:
        r = _run(lambda: delattr(obj, name))
        model.spec.pop(name, None)
      res.label('late:' + how)
    elif how == 'rebind_rest':
      if not model.var:
        continue
      v = [val(x) for x in step.get('v') or []]
      r = _run(lambda: obj.rebind(**{VARARGS: v}))
      model.rest = list(v)
      res.label('late:rebind_rest')
    elif how == 'batch':
      items = step.get('items')
      if not isinstance(items, list) or not items:
        raise core.InvalidCase(case)
      upd, new_spec, new_rest, ok = {}, dict(model.spec), (list(model.rest) if model.rest is not None else None), True
      for kv in items:
        if not (isinstance(kv, list) and len(kv) == 2 and isinstance(kv[0], str)):
          raise core.InvalidCase(case)
        k, v = kv[0], val(kv[1])
        if k in NAMES:
          if not model.accepts_name(k):
            ok = False
            break
          upd[k] = v
          new_spec[k] = v
        elif k in ('a[0]', 'k1[0]'):
          base = k[:-3]
          cur = new_spec.get(base)
          if base not in model.named or not isinstance(cur, list) or not cur or base in upd:
            ok = False
            break
          cur = list(cur)
          cur[0] = v
          new_spec[base] = cur
          upd[k] = v
        elif k == 'b.x':
          cur = new_spec.get('b')
          if 'b' not in model.named or not isinstance(cur, dict) or 'x' not in cur or 'b' in upd:
            ok = False
            break
          cur = dict(cur)
          cur['x'] = v
          new_spec['b'] = cur
          upd[k] = v
        elif k == 'c.x':
          # a write inside the value of `c`: its bound value, or its (so far unspecified) container default
          cur = new_spec.get('c', _default('c') if 'c' in model.named and model.has_default('c') else None)
          if 'c' not in model.named or not isinstance(cur, dict) or 'x' not in cur or 'c' in upd or not is_fn:
            ok = False
            break
          cur = dict(cur)
          cur['x'] = v
          new_spec['c'] = cur
          upd[k] = v
        elif k == 'rest[0]':
          if not model.var or not new_rest:
            ok = False
            break
          new_rest = list(new_rest)
          new_rest[0] = v
          upd[VARARGS + '[0]'] = v
        else:
          raise core.InvalidCase(case)
      if not ok or not upd:
        continue
      r = _run(lambda: obj.rebind(upd))
      model.spec, model.rest = new_spec, new_rest
      res.label('late:batch', 'late:batch-nested' if any('[' in k or '.' in k for k in upd) else 'late:batch-flat')
    else:
      raise core.InvalidCase(case)
    if r[0] != 'ok':
      if not is_fn:
        # re-running __init__ with the merged arguments may legitimately fail only if the interpreter fails too
        rc = model.reference_call(ref_callable, model.spec, model.rest)
        if rc[0] == 'exc':
          res.label('late-error')
          return res
      return res.violate('late binding step %r raised %s (%s) after %s; source:\n%s' % (step, r[1], r[2], what, src),
                         law='late-binding-rejected', how=how, **sigd)
    stages += 1

  # what the object reports
  def reported(o):
    args = o.sym_init_args
    out = {}
    for k, v in args.sym_items():
      out[k] = plain(v)
    return out

  def check_reported(o, label):
    rep = reported(o)
    for n in model.named:
      want = model.spec[n] if n in model.spec else (_default(n) if model.has_default(n) else MISSING)
      gotv = rep.get(n, MISSING)
      if not (gotv == want and type(gotv) is type(want)) and not (want == MISSING and gotv == MISSING):
        return 'sym_init_args[%r] of %s is %r, the effective argument is %r' % (n, label, gotv, want)
    if model.var:
      gotv = rep.get(VARARGS, MISSING)
      if model.rest:
        if gotv != model.rest:
          return 'sym_init_args[%r] of %s is %r, the effective variadic positionals are %r' % (VARARGS, label, gotv, model.rest)
      elif gotv not in (MISSING, [], None) and gotv != MISSING:
        return 'sym_init_args[%r] of %s is %r, no variadic positionals are bound' % (VARARGS, label, gotv)
    extras = {k: v for k, v in rep.items() if k not in model.named and k != VARARGS}
    want_extras = {k: v for k, v in model.spec.items() if k not in model.named}
    if extras != want_extras:
      return 'extra keyword arguments reported by %s: %r, effective: %r' % (label, extras, want_extras)
    if is_fn and label != 'the json':
      sp = set(o.specified_args)
      want_sp = set(model.spec) | ({VARARGS} if model.rest is not None and (model.rest or VARARGS in sp) else set())
      if sp != want_sp:
        return 'specified_args of %s is %r, the specified arguments are %r' % (label, sorted(sp), sorted(want_sp))
    return None

  bad = check_reported(obj, 'the object')
  if bad:
    return res.violate('%s after %s + %r; source:\n%s' % (bad, what, case.get('late'), src), law='reported-args', **sigd)

  # clone / JSON round trip
  target = obj
  if after != 'none':
    if after == 'json':
      r = _run(lambda: pg.from_json(pg.to_json(obj)))
    else:
      r = _run(lambda: obj.clone(deep=(after == 'deepclone')))
    if r[0] != 'ok':
      return res.violate('%s of the object raised %s (%s) after %s + %r; source:\n%s' % (after, r[1], r[2], what, case.get('late'), src),
                         law='copy-raises', after=after, **sigd)
    target = r[1]
    if type(target) is not type(obj):
      return res.violate('%s gives a %r' % (after, type(target)), law='copy-type', after=after, **sigd)
    bad = check_reported(target, 'the %s' % after)
    if bad:
      return res.violate('%s after %s + %r; source:\n%s' % (bad, what, case.get('late'), src), law='reported-args', after=after, **sigd)
    res.label('after:' + after)
    # the copy is independent: binding an argument on a scratch copy of it must not change what the original reports
    if is_fn and model.named:
      probe_name = model.named[len(case.get('late') or []) % len(model.named)]
      scratch = _run(lambda: obj.clone(deep=(after == 'deepclone')))
      if scratch[0] == 'ok':
        unbound = [n for n in model.named if n not in model.spec]
        bound = [n for n in model.named if n in model.spec]
        if unbound:
          _run(lambda: scratch[1].rebind(**{unbound[0]: 'probe'}))
        if bound:
          _run(lambda: delattr(scratch[1], bound[-1]))
        del probe_name
        bad = check_reported(obj, 'the original (after its clone was re-bound)')
        if bad:
          return res.violate('%s; %s + %r; source:\n%s' % (bad, what, case.get('late'), src), law='clone-shares-bookkeeping', **sigd)

  if not is_fn:
    rc = model.reference_call(ref_callable, model.spec, model.rest)
    if rc[0] != 'ok':
      raise core.InvalidCase(case)    # unreachable: late steps on classes are validated by re-running __init__
    gotv = _run(lambda: _state_of(target, kind, model))
    if gotv[0] != 'ok' or gotv[1] != rc[1]:
      return res.violate('after %s + %r (%s) the wrapped instance holds %r, the original class called with the effective '
                         'arguments holds %r; source:\n%s' % (what, case.get('late'), after, gotv[1:], rc[1], src),
                         law='class-state', after=after, **sigd)
    if shape_interesting and stages >= 2:
      res.nontrivial = True
    res.label('kind:' + kind)
    return res

  # the call
  kargs = [val(x) for x in call.get('args', [])]
  kkw = [(k, val(v)) for k, v in call.get('kwargs', [])]
  override = ov in ('ctor', 'call')
  call_extra = {}
  if ov == 'call':
    call_extra['override_args'] = True
  if ignore and after == 'json':
    call_extra['ignore_extra_args'] = True
  spec, rest = dict(model.spec), (list(model.rest) if model.rest else None)
  want = None
  n_args = list(kargs)
  if len(n_args) > model.npos and not model.var:
    if ignore:
      n_args = n_args[:model.npos]
    else:
      want = ('exc', 'TypeError')
  call_named = set()
  if want is None:
    for i, v in enumerate(n_args[:model.npos]):
      n = model.pos[i]
      if n in model.spec and not override:
        want = ('exc', 'TypeError')
        break
      spec[n] = v
      call_named.add(n)
    if len(n_args) > model.npos:
      rest = list(n_args[model.npos:])
  if want is None:
    for k, v in kkw:
      if k in call_named:
        want = ('exc', 'TypeError')      # f(1, a=2): multiple values for an argument
        break
      if k in model.spec and not override:
        want = ('exc', 'TypeError')
        break
      if model.accepts_name(k):
        spec[k] = v
      elif not ignore:
        want = ('exc', 'TypeError')
        break
  if want is None:
    want = model.reference_call(fn, spec, rest)
  def do_call():
    if case.get('tc_off'):
      # type checking switched off for the call: binding rules stay the interpreter's
      with pg.enable_type_check(False):
        return plain(target(*kargs, **dict(kkw), **call_extra))
    return plain(target(*kargs, **dict(kkw), **call_extra))
  gotc = _run(do_call)
  if case.get('tc_off'):
    res.label('typecheck-off')
    sigd = dict(sigd, tc_off='1')
  if kargs or kkw:
    stages += 1
  desc = '%s; late=%r; %s; call(*%r, **%r, %r) override=%s ignore_extra=%s' % (
      what, case.get('late'), after, kargs, dict(kkw), call_extra, override, ignore)
  res.label('kind:' + kind, 'call:' + want[0], 'ov:' + ov)
  if want[0] == 'exc':
    res.label('call-error')
  if shape_interesting and (stages >= 2 or want[0] == 'exc'):
    res.nontrivial = True
  if want[0] == 'ok':
    if gotc[0] != 'ok':
      return res.violate('%s: the original called with the effective arguments returns %r, the functor raises %s (%s); source:\n%s' % (
          desc, want[1], gotc[1], gotc[2], src), law='call-rejected', after=after, **sigd)
    if gotc[1] != want[1]:
      return res.violate('%s: the original called with the effective arguments returns %r, the functor returns %r; source:\n%s' % (
          desc, want[1], gotc[1], src), law='call-result', after=after, **sigd)
  else:
    if gotc[0] == 'ok':
      return res.violate('%s: the original raises %s for these arguments, the functor returns %r; source:\n%s' % (
          desc, want[1], gotc[1], src), law='call-accepted', after=after, **sigd)
    if gotc[1] != want[1]:
      return res.violate('%s: the original raises %s, the functor raises %s (%s); source:\n%s' % (
          desc, want[1], gotc[1], gotc[2], src), law='call-error-kind', after=after, **sigd)
  return res


# ---------------------------------------------------------------------------------------------
# exhaustive sub-domain: every signature shape x canonical call patterns

EXHAUSTIVE_DOMAINS = {
    'shapes_x_patterns': 'every signature with <=2 positional parameters (every number of defaults), <=1 keyword-only parameter '
                         '(with/without default), +-*rest, +-**kw x canonical construction/late/call patterns x 4 wrappers',
}


def _shapes():
  for npos in range(3):
    for ndef in range(npos + 1):
      for kwo in ([], [False], [True]):
        for var in (False, True):
          for varkw in (False, True):
            yield {'npos': npos, 'ndef': ndef, 'kwo': kwo, 'var': var, 'varkw': varkw, 'ann': False}


def _patterns(tier):
  inits = [([], []), ([1], []), ([1, 2], []), ([1, 2, 3], []), ([], [['a', 1]]), ([1], [['k1', 4]]), ([1], [['a', 2]]),
           ([1], [['rest', [7, 8]]]), ([1, 5], [['rest', [7]]]),
           ([], [['e', 5]]), ([], [['b', 2], ['k1', 4]]), ([[1, 2]], [['b', {'$d': [['x', 1]]}]])]
  lates = [[], [{'how': 'rebind', 'name': 'a', 'v': 7}], [{'how': 'del', 'name': 'b', 'v': None}],
           [{'how': 'setattr', 'name': 'k1', 'v': 8}], [{'how': 'batch', 'items': [['a[0]', 9], ['k1', 6]]}],
           [{'how': 'batch', 'items': [['b.x', 9], ['a', 6]]}], [{'how': 'rebind_rest', 'v': [5]}],
           [{'how': 'del', 'name': 'a', 'v': None}]]
  calls = [([], []), ([3], []), ([3, 4], []), ([3, 4, 5], []), ([], [['a', 3]]), ([], [['k1', 6]]), ([3], [['a', 4]]),
           ([], [['zz', 1]]), ([], [['b', 3], ['e', 2]])]
  if tier == 'quick':
    lates = lates[:6]
  for i, l, c in itertools.product(inits, lates, calls):
    yield i, l, c


def _exh(tier):
  kinds = KINDS
  for sig in _shapes():
    for (ia, ik), late, (ca, ck) in _patterns(tier):
      for kind in kinds:
        if kind not in ('functor',) and (ca or ck) and kind != 'symbolize_fn':
          continue     # classes are not called
        if any(k == VARARGS for k, _ in ik) and (kind not in ('symbolize_cls', 'wrap_cls') or sig['varkw']):
          continue     # (the name of *rest as a keyword: wrapped classes only, see execute)
        for ov in (('none', 'call') if kind == 'functor' else ('none',)):
          yield {'sig': sig, 'kind': kind, 'init': {'args': ia, 'kwargs': ik}, 'late': late,
                 'call': {'args': ca, 'kwargs': ck}, 'ov': ov, 'ignore': False, 'after': 'none'}


def exhaustive(tier):
  return {'shapes_x_patterns': _exh(tier)}
