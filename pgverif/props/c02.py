"""C02 — pg.List / pg.Dict vs Python list / dict under every mutation history."""
import copy
import itertools

import pyglove as pg
from hypothesis import strategies as st

from pgverif import core
from pgverif.gen import values

ID = 'C02'
RULE = ('differential: the same op history runs on a value-spec-free pg.List/pg.Dict and on a plain '
        'list/dict through a translation that encodes only the documented extensions; result, error '
        'class, contents+order, len, ==, to_json compared after every step. Non-trivial: >=2 mutating '
        'ops applied, >=1 of them with a negative index, a slice, an out-of-range index/missing key, '
        'an in-place operator or a non-list iterable; distinct = distinct case JSON')
ASSUMPTIONS = [
    'NaN is not generated (identity shortcuts of CPython containers are outside the comparison)',
    'rebind keys are restricted to non-negative list indices and simple dict keys (rebind keys are documented as paths)',
    'sort uses a key function normalising symbolic containers to plain ones',
]
BUDGET = {'quick': 6000, 'thorough': 160000}
EXHAUSTIVE_DOMAINS = {
    'equal_overwrites': 'an item / a key overwritten by a value that compares equal but is another value (1, True, 1.0, 0, False, 0.0, '
                        'containers of them): 13 x 13 old/new pairs x item assignment, rebind (1 and 2 paths), slice assignment, '
                        'dict assignment / update / rebind / |=',
    'slices': 'all (start, stop) in {None,-7..7}^2 x step in {None,-3..3} slice read / assign(0..3 items) / delete on lists of length 0..5',
}

DKEYS = ['k', 'm', 'n', 'a.b', 'x y', 0, 1, -2, 'p[0]']
SIMPLE = ['k', 'm', 'n', 0, 1, -2]

LIST_MUT = ['append', 'insert', 'extend', 'pop', 'remove', 'del', 'delslice', 'set',
            'setslice', 'sort', 'reverse', 'clear', 'iadd', 'imul', 'rebind', 'rebind2', 'rebind_nested']
LIST_READ = ['getslice', 'get', 'add', 'mul', 'rmul', 'index', 'count', 'contains',
             'copy', 'len', 'iter', 'eq', 'reversed', 'sorted']
DICT_MUT = ['dset', 'dsetattr', 'ddel', 'ddelattr', 'dpop', 'dpopd', 'popitem', 'update',
            'setdefault', 'dclear', 'ior', 'setmissing', 'drebind', 'drebind2', 'rebind_nested']
DICT_READ = ['dget', 'dgetitem', 'dgetattr', 'din', 'dlen', 'keys', 'values', 'items',
             'dcopy', 'deq', 'diter']

VAL = values.vdesc(max_leaves=4, keys=SIMPLE, objects=False,
                   scalars=st.one_of(st.integers(-2, 3), st.sampled_from(['a', 'b', None, True, 1.5])))


def _op(names):
  return st.fixed_dictionaries({
      'op': st.sampled_from(names),
      'i': st.integers(-7, 7),
      'j': st.one_of(st.none(), st.integers(-7, 7)),
      's': st.one_of(st.none(), st.integers(-3, 3)),
      'k': st.integers(0, len(DKEYS) - 1),
      'k2': st.integers(0, len(DKEYS) - 1),
      'v': VAL,
      'w': VAL,
      'm': st.integers(0, 5),
  })


def strategy(tier):
  n = 14 if tier == 'quick' else 30
  lst = st.fixed_dictionaries({
      'kind': st.just('list'),
      'init': st.lists(VAL, max_size=5),
      'ops': st.lists(_op(LIST_MUT * 2 + LIST_READ), min_size=1, max_size=n),
  })
  dct = st.fixed_dictionaries({
      'kind': st.just('dict'),
      'init': st.lists(st.tuples(st.sampled_from(DKEYS), VAL), max_size=5,
                       unique_by=lambda kv: (type(kv[0]).__name__, kv[0])).map(
                           lambda kvs: {'$d': [list(kv) for kv in kvs]}),
      'ops': st.lists(_op(DICT_MUT * 2 + DICT_READ), min_size=1, max_size=n),
  })
  return st.one_of(lst, dct)


def exhaustive(tier):
  rng = [None] + list(range(-7, 8))
  steps = [None, -3, -2, -1, 0, 1, 2, 3]

  def gen():
    for n in range(0, 6):
      init = list(range(n))
      for a, b, s in itertools.product(rng, rng, steps):
        yield {'kind': 'list', 'init': init,
               'ops': [{'op': 'getslice', 'i': a, 'j': b, 's': s, 'ix': True}]}
        yield {'kind': 'list', 'init': init,
               'ops': [{'op': 'delslice', 'i': a, 'j': b, 's': s, 'ix': True}]}
        for r in range(0, 4):
          yield {'kind': 'list', 'init': init,
                 'ops': [{'op': 'setslice', 'i': a, 'j': b, 's': s, 'ix': True,
                          'v': [10 + x for x in range(r)]}]}
  def equal_overwrites():
    # an item overwritten by a value that is == to it but not the same value (1 / True / 1.0, containers of them)
    vals = [1, True, 1.0, 0, False, 0.0, [1], [True], [1.0], {'$d': [['k', 1]]}, {'$d': [['k', True]]}, [], {'$d': []}]
    for old, new in itertools.product(vals, repeat=2):
      for name, extra in (('set', {'i': 0}), ('set', {'i': -1}), ('rebind', {'i': 0, 'm': 0}), ('rebind2', {'i': 0, 'j': 1, 'm': 0}),
                          ('setslice', {'i': 0, 'j': 1, 's': None, 'ix': True})):
        op = dict({'op': name, 'v': [new] if name == 'setslice' else new, 'w': new}, **extra)
        yield {'kind': 'list', 'init': [old, old], 'ops': [op]}
      for name, extra in (('dset', {'k': 0}), ('update', {'k': 0, 'm': 0}), ('drebind', {'k': 0, 'm': 0}), ('ior', {'k': 0, 'm': 0})):
        yield {'kind': 'dict', 'init': {'$d': [['k', old], ['m', old]]}, 'ops': [dict({'op': name, 'v': new, 'w': new}, **extra)]}
  return {'slices': gen(), 'equal_overwrites': equal_overwrites()}


def _iterable(v, m, sym):
  """Builds the iterable argument of extend/iadd/setslice in one of several forms."""
  if not isinstance(v, list):
    v = [v]
  m = m % 5
  if m == 0:
    return v
  if m == 1:
    return tuple(v)
  if m == 2:
    return (x for x in v)
  if m == 3:
    return pg.List(copy.deepcopy(v)) if sym else copy.deepcopy(v)
  return 'ab'


def _mapping(v, key, m, sym):
  if not isinstance(v, dict):
    v = {key: v}
  m = m % 3
  if m == 0:
    return v
  if m == 1:
    return list(v.items())
  return pg.Dict(copy.deepcopy(v)) if sym else copy.deepcopy(v)


def _sortkey(x):
  p = values.plain(x)
  return (type(p).__name__, repr(p))


def _unalias(x):
  if isinstance(x, list):
    return [_unalias(e) for e in x]
  if isinstance(x, dict):
    return {k: _unalias(e) for k, e in x.items()}
  return x


def apply(x, op, sym):
  """Runs one op on `x` (a list holder [obj]); sym tells which side it is."""
  name = op['op']
  i, j, s, m = op.get('i', 0), op.get('j'), op.get('s'), op.get('m', 0)
  ix = op.get('ix', False)
  if ix is False and i is None:
    i = 0
  obj = x[0]
  v = values.build(op.get('v'))
  w = values.build(op.get('w'))
  key = DKEYS[op.get('k', 0) % len(DKEYS)]
  key2 = DKEYS[op.get('k2', 0) % len(DKEYS)]
  skey = SIMPLE[op.get('k', 0) % len(SIMPLE)]
  skey2 = SIMPLE[op.get('k2', 0) % len(SIMPLE)]
  if name == 'append':
    return obj.append(v)
  if name == 'insert':
    return obj.insert(i, v)
  if name == 'extend':
    return obj.extend(_iterable(v, m, sym))
  if name == 'pop':
    return obj.pop() if m == 0 else obj.pop(i)
  if name == 'remove':
    return obj.remove(v)
  if name == 'del':
    del obj[i]
    return None
  if name == 'delslice':
    del obj[slice(i, j, s)]
    return None
  if name == 'set':
    obj[i] = v
    return None
  if name == 'setslice':
    obj[slice(i, j, s)] = _iterable(v, m if not ix else 0, sym)
    return None
  if name == 'getslice':
    return obj[slice(i, j, s)]
  if name == 'get':
    return obj[i]
  if name == 'sort':
    # (keys with ties: a stable sort keeps tied items in their order, also with reverse=True)
    key = [_sortkey, lambda e: len(repr(values.plain(e))), lambda e: 0][(m // 2) % 3]
    return obj.sort(key=key, reverse=bool(m % 2))
  if name == 'reverse':
    return obj.reverse()
  if name == 'clear':
    return obj.clear()
  if name == 'iadd':
    alias = x[0]
    x[0] += _iterable(v, m, sym)
    return ('same-object', x[0] is alias, values.plain(alias))
  if name == 'imul':
    alias = x[0]
    x[0] *= (i % 4) - 1
    return ('same-object', x[0] is alias, values.plain(alias))
  if name == 'add':
    r = obj + (v if isinstance(v, list) else [v])
    return ('type-kept', type(r) is type(obj), values.plain(r))
  if name == 'mul':
    r = obj * ((i % 4) - 1)
    return ('type-kept', type(r) is type(obj), values.plain(r))
  if name == 'rmul':
    r = ((i % 4) - 1) * obj
    return ('type-kept', type(r) is type(obj), values.plain(r))
  if name == 'index':
    return obj.index(v)
  if name == 'count':
    return obj.count(v)
  if name == 'contains':
    return v in obj
  if name in ('copy', 'dcopy'):
    r = obj.copy()
    return ('type-kept', type(r) is type(obj), r is not obj, values.plain(r))
  if name in ('len', 'dlen'):
    return len(obj)
  if name in ('iter', 'diter'):
    return [values.plain(e) for e in obj]
  if name in ('eq', 'deq'):
    other = copy.deepcopy(values.plain(obj))
    if isinstance(v, type(other)):
      return (obj == other, obj != other, other == obj, obj == v, obj != v)
    return (obj == other, obj != other, other == obj)
  if name == 'reversed':
    return [values.plain(e) for e in reversed(obj)]
  if name == 'sorted':
    return [values.plain(e) for e in sorted(obj, key=_sortkey)]
  if name == 'rebind_nested':
    # one path of two keys into the first nested list (replace / insert / delete there), with the notification
    # that the write would send switched on, skipped by argument, or disabled by scope
    if not sym:
      # a symbolic container owns its members (`l *= 2` stores copies, the plain list the same object twice):
      # the reference must not carry that aliasing into a nested write
      fresh = _unalias(obj)
      if isinstance(obj, list):
        obj[:] = fresh
      else:
        obj.clear()
        obj.update(fresh)
    items = list(enumerate(obj)) if isinstance(obj, list) else list(obj.items())
    where = [(p, e) for p, e in items if isinstance(e, list)]
    if not where:
      raise core.InvalidCase('skip')
    p, inner = where[0]
    q, mode, how = abs(i) % (len(inner) + 1), m % 3, (op.get('k2', 0) % 3)
    if mode == 2 and q >= len(inner):
      raise core.InvalidCase('skip')
    if not sym:
      if mode == 1 and q <= len(inner):
        inner.insert(q, v)
      elif mode == 2:
        del inner[q]
      elif q >= len(inner):
        inner.append(v)
      else:
        inner[q] = v
      return None
    val = pg.Insertion(v) if mode == 1 else (pg.MISSING_VALUE if mode == 2 else v)
    path = pg.KeyPath([p, q])
    if how == 1:
      obj.rebind({path: val}, skip_notification=True)
    elif how == 2:
      with pg.notify_on_change(False):
        obj.rebind({path: val})
    else:
      obj.rebind({path: val})
    return None
  if name in ('rebind', 'rebind2'):
    n = len(obj)
    idx = abs(i)
    if not sym:
      # reference semantics of the documented extensions
      def one(idx, val, mode):
        if mode == 2 and idx <= len(obj):
          obj.insert(idx, val)
        elif mode == 3:
          if idx < len(obj):
            del obj[idx]
        elif idx >= len(obj):
          obj.append(val)
        else:
          obj[idx] = val
      if name == 'rebind':
        if m % 4 == 3 and idx >= n:
          raise core.InvalidCase('skip')
        one(idx, v, m % 4)
      else:
        a, b = sorted({idx % (n + 1), abs(j or 0) % (n + 1)})[0], sorted({idx % (n + 1), abs(j or 0) % (n + 1)})[-1]
        if a == b or b >= n:
          raise core.InvalidCase('skip')
        # (keys of one batch address the list as it was before the batch, negative ones included)
        if m % 3 == 1:
          obj[b] = w
          del obj[a]
        elif m % 3 == 2:
          obj[a] = v
          del obj[b]
        else:
          obj[a] = v
          obj[b] = w
      return None
    if name == 'rebind':
      mode = m % 4
      if mode == 3 and idx >= n:
        raise core.InvalidCase('skip')
      if mode == 2 and idx <= n:
        obj.rebind({idx: pg.Insertion(v)})
      elif mode == 3:
        obj.rebind({idx: pg.MISSING_VALUE})
      else:
        obj.rebind({idx: v})
    else:
      a, b = sorted({idx % (n + 1), abs(j or 0) % (n + 1)})[0], sorted({idx % (n + 1), abs(j or 0) % (n + 1)})[-1]
      if a == b or b >= n:
        raise core.InvalidCase('skip')
      if m % 3 == 1:
        obj.rebind({a: pg.MISSING_VALUE, b - n: w})
      elif m % 3 == 2:
        obj.rebind({a - n: v, b: pg.MISSING_VALUE})
      else:
        obj.rebind({a: v, b: w})
    return None
  # ---- dict ops
  if name == 'dset':
    obj[key] = v
    return None
  if name == 'dsetattr':
    if not isinstance(key, str):
      raise core.InvalidCase('skip')
    if sym:
      setattr(obj, key, v)
    else:
      obj[key] = v
    return None
  if name == 'ddel':
    del obj[key]
    return None
  if name == 'ddelattr':
    if not isinstance(key, str):
      raise core.InvalidCase('skip')
    if sym:
      try:
        delattr(obj, key)
      except AttributeError as e:   # attribute protocol may report a missing key so
        raise KeyError(key) from e
    else:
      del obj[key]
    return None
  if name == 'dpop':
    return obj.pop(key)
  if name == 'dpopd':
    return obj.pop(key, v)
  if name == 'popitem':
    return obj.popitem()
  if name == 'update':
    mp = _mapping(v, key, m, sym)
    if m >= 3 and isinstance(mp, dict) and all(isinstance(kk, str) and kk.isidentifier() for kk in mp):
      return obj.update(**mp)
    return obj.update(mp)
  if name == 'setdefault':
    r = obj.setdefault(key, v)
    # what setdefault returns is what the dict holds (`d.setdefault(k, []).append(x)` is the point of the method)
    return (r, 'is-the-stored-value', r is obj[key] if isinstance(r, (list, dict)) else True)
  if name == 'dclear':
    return obj.clear()
  if name == 'ior':
    alias = x[0]
    x[0] |= _mapping(v, key, m, sym)
    return ('same-object', x[0] is alias, values.plain(alias))
  if name == 'setmissing':
    if sym:
      obj[key] = pg.MISSING_VALUE
    else:
      obj.pop(key, None)
    return None
  if name == 'drebind':
    if sym:
      if m % 3 == 2:
        if skey not in obj:
          raise core.InvalidCase('skip')
        obj.rebind({skey: pg.MISSING_VALUE})
      else:
        obj.rebind({skey: v})
    else:
      if m % 3 == 2:
        if skey not in obj:
          raise core.InvalidCase('skip')
        del obj[skey]
      else:
        obj[skey] = v
    return None
  if name == 'drebind2':
    if skey == skey2:
      raise core.InvalidCase('skip')
    if sym:
      obj.rebind({skey: v, skey2: w})
    else:
      obj[skey] = v
      obj[skey2] = w
    return None
  if name == 'dget':
    return (obj.get(key), obj.get(key, v))
  if name == 'dgetitem':
    return obj[key]
  if name == 'dgetattr':
    if not isinstance(key, str) or not key.isidentifier():
      raise core.InvalidCase('skip')
    if sym:
      try:
        return getattr(obj, key)
      except AttributeError as e:
        raise KeyError(key) from e
    return obj[key]
  if name == 'din':
    return key in obj
  if name == 'keys':
    return list(obj.keys())
  if name == 'values':
    return [values.plain(e) for e in obj.values()]
  if name == 'items':
    return [(kk, values.plain(e)) for kk, e in obj.items()]
  raise core.InvalidCase(op)


MUTATING = set(LIST_MUT) | set(DICT_MUT)
FAMILIES = (IndexError, KeyError, TypeError, ValueError, ZeroDivisionError, AttributeError)


def _family(e):
  for f in FAMILIES:
    if isinstance(e, f):
      return f.__name__
  return type(e).__name__


def _norm(r):
  r = values.plain(r)
  if isinstance(r, tuple):
    return list(_norm(x) for x in r)
  if isinstance(r, list):
    return [_norm(x) for x in r]
  if isinstance(r, dict):
    return {k: _norm(x) for k, x in r.items()}
  return r


def _strict_eq(a, b):
  """Equality that also distinguishes bool/int/float leaf types."""
  if type(a) is not type(b):
    return False
  if isinstance(a, list):
    return len(a) == len(b) and all(_strict_eq(x, y) for x, y in zip(a, b))
  if isinstance(a, dict):
    return list(a.keys()) == list(b.keys()) and all(_strict_eq(a[k], b[k]) for k in a)
  return a == b


def _str_keyed(v):
  if isinstance(v, dict):
    return all(isinstance(k, str) for k in v) and all(_str_keyed(x) for x in v.values())
  if isinstance(v, list):
    return all(_str_keyed(x) for x in v)
  return True


def execute(case):
  res = core.Result()
  if not isinstance(case, dict) or case.get('kind') not in ('list', 'dict') \
      or not isinstance(case.get('ops'), list):
    raise core.InvalidCase(case)
  kind = case['kind']
  init = values.build(case['init'])
  if kind == 'list' and not isinstance(init, list):
    raise core.InvalidCase(case)
  if kind == 'dict' and not isinstance(init, dict):
    raise core.InvalidCase(case)
  ref = [copy.deepcopy(init)]
  sut = [pg.List(copy.deepcopy(init)) if kind == 'list' else pg.Dict(copy.deepcopy(init))]
  res.label('kind:' + kind)
  n_mut = 0
  special = False
  for op in case['ops']:
    if not isinstance(op, dict) or not isinstance(op.get('op'), str):
      raise core.InvalidCase(op)
    name = op['op']
    if (kind == 'list') != (name in LIST_MUT or name in LIST_READ):
      continue
    before = copy.deepcopy(ref[0])
    try:
      r1 = ('ok', _norm(apply(ref, op, False)))
    except core.InvalidCase:
      continue
    except Exception as e:   # pylint: disable=broad-except
      r1 = ('exc', _family(e))
    try:
      r2 = ('ok', _norm(apply(sut, op, True)))
    except core.InvalidCase:
      raise
    except RecursionError:
      raise
    except Exception as e:   # pylint: disable=broad-except
      r2 = ('exc', _family(e))
    res.label('op:' + name, 'ref:' + r1[0] + (':' + r1[1] if r1[0] == 'exc' else ''))
    if name in MUTATING and r1[0] == 'ok':
      n_mut += 1
      i, j = op.get('i'), op.get('j')
      if name in ('delslice', 'setslice', 'iadd', 'imul', 'ior', 'rebind', 'rebind2', 'drebind2',
                  'setmissing', 'update', 'extend') or (
                      name in ('insert', 'pop', 'del', 'set') and isinstance(i, int) and i < 0):
        special = True
    if name in MUTATING and r1[0] == 'exc':
      special = True
    desc = {k: v for k, v in op.items() if v not in (None, False)}
    if r1[0] != r2[0]:
      return res.violate('before=%r op=%r python=%r pyglove=%r' % (before, desc, r1, r2),
                         op=name, diff='outcome', python=r1[1] if r1[0] == 'exc' else 'ok',
                         pyglove=r2[1] if r2[0] == 'exc' else 'ok')
    if r1[0] == 'exc' and r1[1] != r2[1]:
      return res.violate('before=%r op=%r python raises %s, pyglove raises %s' % (before, desc, r1[1], r2[1]),
                         op=name, diff='error-class', python=r1[1], pyglove=r2[1])
    if r1[0] == 'ok' and not _strict_eq(r1[1], r2[1]):
      return res.violate('before=%r op=%r python returns %r, pyglove returns %r' % (before, desc, r1[1], r2[1]),
                         op=name, diff='result')
    # read back through several doors
    s, r = sut[0], ref[0]
    if not isinstance(s, pg.List if kind == 'list' else pg.Dict):
      return res.violate('before=%r op=%r object is now %s' % (before, desc, type(s).__name__),
                         op=name, diff='type')
    got = _norm(list(s)) if kind == 'list' else _norm([[k, s[k]] for k in s])
    want = _norm(list(r)) if kind == 'list' else _norm([[k, r[k]] for k in r])
    if not _strict_eq(got, want):
      return res.violate('before=%r op=%r contents python=%r pyglove=%r' % (before, desc, want, got),
                         op=name, diff='contents')
    raw = values.plain(s)
    if not _strict_eq(_norm(raw), _norm(r)):
      return res.violate('before=%r op=%r stored python=%r pyglove=%r' % (before, desc, r, raw),
                         op=name, diff='stored')
    if len(s) != len(r):
      return res.violate('len %d vs %d after %r' % (len(s), len(r), desc), op=name, diff='len')
    if not (s == r) or (s != r):
      return res.violate('before=%r op=%r: pyglove value %r != plain %r' % (before, desc, s, r),
                         op=name, diff='eq-plain')
    if _str_keyed(r):
      js = pg.to_json(s)
      if not _strict_eq(_norm(js), _norm(r)):
        return res.violate('before=%r op=%r to_json=%r plain=%r' % (before, desc, js, r),
                           op=name, diff='to_json')
  if n_mut >= 2 and special:
    res.nontrivial = True
  return res
