"""C16 — concurrent sampling hands out each trial once and loses no feedback, under every schedule."""
import itertools
import re
import threading

import pyglove as pg
from hypothesis import strategies as st
from pyglove.core.tuning import local_backend
from pyglove.ext.evolution import base as evolution_base

from pgverif import core
from pgverif import sched as sched_lib

ID = 'C16'
RULE = ('2-4 worker threads iterate pg.sample(space, algorithm, num_examples=N<=6, name=<shared>, group=<generated>) on the '
        'in-memory backend with a shared algorithm instance (Sweeping, Random(seed), regularized_evolution, Deduping(Random)); '
        'each worker follows a generated per-trial action list (measure+done, skip, several measurements + should_stop_early, '
        'done + end_loop, abandon); the interleaving is owned by the harness: every source line of local_backend.py, sample.py, '
        'protocols.py, dna_generator.py, ext/evolution/base.py, geno/random.py, geno/sweeping.py, geno/deduping.py is a scheduling '
        'point and the next worker is chosen by a generated schedule (random choices, bursts, or exhaustive single/double '
        'preemption points); locks of the code under test are cooperative so deadlocks are detected. At quiescence: ids 1..n each '
        'once, n == N when nobody ended or abandoned the loop, each trial delivered to one group only, a group never receives a new '
        'trial while its previous one is pending, every completed feasible trial fed back to the algorithm exactly once and skipped '
        'ones never, counters of the algorithm and of the result summary add up, best trial has maximal reward among feasible ones. '
        'Non-trivial: >=1 context switch while the preempted worker was inside a critical function')
ASSUMPTIONS = [
    'scheduling points are source lines (and the call boundaries they imply) of the listed files; preemption inside one line or '
    'inside C code is not explored (CPython 3.12 only switches threads at calls and backward jumps)',
    'workers of one group wrap their reports in feedback.ignore_race_condition(), as the documentation prescribes',
    'the summary counters are read from str(result) (there is no public accessor)',
    'a trial may stay PENDING at quiescence only if every worker that received it abandoned it or the loop was ended',
]
BUDGET = {'quick': 500, 'thorough': 30000}

TARGETS = ('pyglove/core/tuning/local_backend.py', 'pyglove/core/tuning/sample.py', 'pyglove/core/tuning/protocols.py',
           'pyglove/core/geno/dna_generator.py', 'pyglove/ext/evolution/base.py', 'pyglove/core/geno/random.py',
           'pyglove/core/geno/sweeping.py', 'pyglove/core/geno/deduping.py')
CRITICAL = ('create_trial', '_complete_trial', 'done', 'skip', 'next', '__init__', 'propose', '_propose', 'feedback',
            '_feedback', '_add_measurement', 'add_measurement', 'next_trial_id', 'get_latest_trial', 'setup', '_setup',
            'next_dna', '_set_active')
ALGOS = ['sweep', 'random', 'evo', 'dedup', 'evokeep']
ACTIONS = ['done', 'skip', 'multi', 'end', 'abandon']

_COUNTER = [0]


def make_algo(kind, log):
  """The shared algorithm instance; `feedback` calls are logged by a harness subclass."""
  def counting(base):
    class Counting(base):     # pylint: disable=too-few-public-methods
      def feedback(self, dna, reward):
        log.append(('feedback', id(dna), reward))
        return super().feedback(dna, reward)
    return Counting
  if kind == 'sweep':
    return counting(pg.geno.Sweeping)()
  if kind == 'random':
    return counting(pg.geno.Random)(seed=1)
  if kind == 'dedup':
    return counting(pg.geno.Deduping)(pg.geno.Random(seed=1), max_proposal_attempts=50)
  if kind in ('evo', 'evokeep'):
    # 'evokeep': the population update keeps every reported trial (the population is larger than any run)
    algo = pg.evolution.regularized_evolution(pg.evolution.mutators.Uniform(seed=1), population_size=2 if kind == 'evo' else 64,
                                              tournament_size=2, seed=1)
    orig = algo.feedback

    def fb(dna, reward):
      log.append(('feedback', id(dna), reward))
      return orig(dna, reward)
    object.__setattr__(algo, 'feedback', fb)
    return algo
  raise core.InvalidCase(kind)


def reward_of(ex, sign):
  return sign * (float(ex.x) + 0.1 * float(ex.y))


# ---------------------------------------------------------------------------------------------
# schedules


def chooser_of(desc, n):
  kind = desc.get('kind')
  if kind == 'random':
    ch = desc.get('choices') or [0]

    def choose(ready, tid, s):
      del tid
      return ready[ch[s.steps % len(ch)] % len(ready)]
    return choose
  if kind == 'bursts':
    runs = desc.get('runs') or [[0, 1]]
    st8 = {'i': 0, 'left': runs[0][1]}

    def choose(ready, tid, s):
      del s
      if st8['left'] <= 0:
        st8['i'] += 1
        st8['left'] = runs[st8['i'] % len(runs)][1]
      st8['left'] -= 1
      want = runs[st8['i'] % len(runs)][0] % n
      if want in ready:
        return want
      if tid in ready:
        return tid
      return ready[0]
    return choose
  if kind == 'preempt':
    points = set(desc.get('at') or [])

    def choose(ready, tid, s):
      if tid is None:
        return ready[0]
      if tid in ready and s.steps not in points:
        return tid
      later = [r for r in ready if r > tid] if tid is not None else []
      others = [r for r in ready if r != tid]
      if s.steps in points and others:
        return (later or others)[0]
      return tid if tid in ready else ready[0]
    return choose
  raise core.InvalidCase(desc)


def _sched_strategy(n_workers):
  return st.one_of(
      st.fixed_dictionaries({'kind': st.just('random'), 'choices': st.lists(st.integers(0, 3), min_size=1, max_size=200)}),
      st.fixed_dictionaries({'kind': st.just('random'), 'choices': st.lists(st.sampled_from([0, 0, 0, 0, 0, 0, 1]), min_size=8, max_size=200)}),
      st.fixed_dictionaries({'kind': st.just('bursts'), 'runs': st.lists(
          st.tuples(st.integers(0, n_workers - 1), st.integers(1, 60)).map(list), min_size=2, max_size=40)}),
      st.fixed_dictionaries({'kind': st.just('preempt'), 'at': st.lists(st.integers(1, 900), min_size=1, max_size=4, unique=True)}),
  )


def strategy(tier):
  del tier
  worker = st.fixed_dictionaries({'group': st.sampled_from([None, None, 0, 1, 'g', '']),
                                  'actions': st.lists(st.sampled_from(ACTIONS[:3] * 3 + ACTIONS), min_size=1, max_size=4)})
  return st.integers(2, 4).flatmap(lambda n: st.fixed_dictionaries({
      'algo': st.sampled_from(ALGOS + ['sweep']),
      'N': st.integers(1, 6),
      'sign': st.sampled_from([1, -1]),
      'workers': st.lists(worker, min_size=n, max_size=n),
      'sched': _sched_strategy(n),
  }))


# ---------------------------------------------------------------------------------------------


def _validate(case):
  if not isinstance(case, dict) or case.get('algo') not in ALGOS or not isinstance(case.get('workers'), list):
    raise core.InvalidCase(case)
  n = case.get('N')
  if isinstance(n, bool) or not isinstance(n, int) or not 1 <= n <= 8 or case.get('sign') not in (1, -1):
    raise core.InvalidCase(case)
  if not 1 <= len(case['workers']) <= 8:
    raise core.InvalidCase(case)
  for w in case['workers']:
    if not isinstance(w, dict) or not isinstance(w.get('actions'), list) or not w['actions'] \
        or any(a not in ACTIONS for a in w['actions']):
      raise core.InvalidCase(case)
    g = w.get('group')
    if not (g is None or isinstance(g, str) or (isinstance(g, int) and not isinstance(g, bool))):
      raise core.InvalidCase(case)
  sd = case.get('sched')
  if not isinstance(sd, dict):
    raise core.InvalidCase(case)
  if sd.get('kind') == 'random':
    ok = isinstance(sd.get('choices'), list) and sd['choices'] and all(isinstance(x, int) and not isinstance(x, bool) and x >= 0 for x in sd['choices'])
  elif sd.get('kind') == 'bursts':
    ok = isinstance(sd.get('runs'), list) and sd['runs'] and all(
        isinstance(r, list) and len(r) == 2 and all(isinstance(x, int) and not isinstance(x, bool) and x >= 0 for x in r) and r[1] >= 1
        for r in sd['runs'])
  elif sd.get('kind') == 'preempt':
    ok = isinstance(sd.get('at'), list) and all(isinstance(x, int) and not isinstance(x, bool) and x >= 0 for x in sd['at'])
  else:
    ok = False
  if not ok:
    raise core.InvalidCase(case)


def execute(case):
  res = core.Result()
  _validate(case)
  _COUNTER[0] += 1
  name = 'c16-study-%d' % _COUNTER[0]
  n_target = case['N']
  sign = case['sign']
  log = []                 # harness log: ('deliver', worker, group, trial id, pending-of-group) / ('act', ...) / ('feedback', ...)
  algo = make_algo(case['algo'], log)
  space = pg.Dict(x=pg.oneof([0, 1, 2, 3]), y=pg.oneof([0, 1, 2]))
  delivered = {}           # trial id -> set of groups
  completing = {}          # trial id -> set of actions attempted on it
  by_group_ids = {}
  studies = {}             # the study object each worker actually samples from

  def worker_fn(wi, w):
    group = w.get('group')
    gkey = ('thread', wi) if group is None else ('group', group)
    actions = w['actions']

    def fn():
      k = 0
      for ex, fb in pg.sample(space, algo, num_examples=n_target, name=name, group=group):
        study = local_backend._in_memory_results.get(name)    # pylint: disable=protected-access
        mine = by_group_ids.setdefault(gkey, [])
        still_pending = [t.id for t in (study.trials if study is not None else [])
                         if t.id in mine and t.id < fb.id and t.status == 'PENDING']     # (older ones: a worker may be
        # resumed with a trial that a co-worker has finished in the meantime, which is not a new hand-out)
        log.append(('deliver', wi, gkey, fb.id, still_pending))
        studies.setdefault(id(getattr(fb, '_study', None)), getattr(fb, '_study', None))
        if fb.id not in mine:
          mine.append(fb.id)
        delivered.setdefault(fb.id, set()).add(gkey)
        action = actions[k % len(actions)]
        k += 1
        completing.setdefault(fb.id, set()).add(action)
        r = reward_of(ex, sign)
        with fb.ignore_race_condition():
          if action == 'done':
            fb(r)
          elif action == 'skip':
            fb.skip()
          elif action == 'multi':
            fb.add_measurement(r - 1.0, step=1)
            fb.should_stop_early()
            fb.add_measurement(r, step=2)
            fb.done()
          elif action == 'end':
            fb(r)
            fb.end_loop()
          elif action == 'abandon':
            break
        if k > 3 * n_target + 3:
          break     # a worker of a group whose trial another member never completes
    return fn

  mods = (local_backend, evolution_base)
  saved = [m.threading for m in mods]
  real_lock_types = (type(threading.Lock()), type(threading.RLock()))
  saved_locks = []
  s = sched_lib.Sched(chooser_of(case['sched'], len(case['workers'])), TARGETS, CRITICAL)
  try:
    for m in mods:
      m.threading = sched_lib.shim
      # module-level locks created at import time are made cooperative for the run as well
      for attr, v in list(vars(m).items()):
        if isinstance(v, real_lock_types):
          saved_locks.append((m, attr, v))
          setattr(m, attr, sched_lib.CoopLock())
    s.run([worker_fn(i, w) for i, w in enumerate(case['workers'])])
  finally:
    for m, t in zip(mods, saved):
      m.threading = t
    for m, attr, v in saved_locks:
      setattr(m, attr, v)
  study = local_backend._in_memory_results.pop(name, None)   # pylint: disable=protected-access

  sig = {'algo': case['algo']}
  groups = [w.get('group') for w in case['workers']]
  shared_groups = len({repr(g) for g in groups if g is not None}) < len([g for g in groups if g is not None])
  res.label('algo:' + case['algo'], 'sched:' + case['sched']['kind'], 'workers:%d' % len(case['workers']))
  if shared_groups:
    res.label('co-workers')
    sig['co_workers'] = '1'
  if s.critical_switches:
    res.nontrivial = True
    res.label('critical-switch')
  ctx = 'steps=%d switches=%d critical_switches=%d; workers=%r N=%d' % (
      s.steps, s.switches, s.critical_switches, case['workers'], n_target)
  if s.abort:
    if s.abort.startswith('deadlock'):
      return res.violate('%s; %s' % (s.abort, ctx), law='deadlock', **sig)
    if s.abort == 'step budget exceeded':
      res.label('step-budget')
      return res
    raise RuntimeError(s.abort)
  if s.errors:
    wi, e, tb = s.errors[0]
    return res.violate('worker %d raised %s: %s; %s\n%s' % (wi, type(e).__name__, e, ctx, tb), law='worker-raises',
                       exc=type(e).__name__, **sig)
  if study is None:
    return res.violate('no study registered under the name; ' + ctx, law='no-study', **sig)

  if len(studies) > 1 or (studies and id(study) not in studies):
    return res.violate('the workers sampled from %d different study objects for one name (%s); %s' % (
        len(studies), [len(x.trials) for x in studies.values() if x is not None], ctx), law='private-study', **sig)
  trials = list(study.trials)
  ids = [t.id for t in trials]
  seen_ids = sorted(delivered)
  if sorted(ids) != list(range(1, len(ids) + 1)):
    return res.violate('trial ids of the study are %r; %s' % (ids, ctx), law='ids', **sig)
  if sorted(set(seen_ids)) != sorted(ids):
    # workers were handed trials the named study does not know (or the other way round)
    return res.violate('workers received trials %r, the named study holds %r (a worker sampled from a private study); %s' % (
        seen_ids, ids, ctx), law='private-study', **sig)
  all_delivered = [e[3] for e in log if e[0] == 'deliver']
  if len(ids) > n_target:
    return res.violate('%d trials were created for num_examples=%d; %s' % (len(ids), n_target, ctx), law='too-many-trials', **sig)
  quiet = all(a in ('done', 'skip', 'multi') for w in case['workers'] for a in w['actions'])
  if quiet and len(ids) != n_target:
    return res.violate('%d trials were created for num_examples=%d although no worker ended or abandoned the loop; %s' % (
        len(ids), n_target, ctx), law='too-few-trials', **sig)
  for tid, gs in delivered.items():
    if len(gs) > 1:
      return res.violate('trial %d was delivered to the groups %r; %s' % (tid, sorted(map(repr, gs)), ctx), law='two-groups', **sig)
  for e in log:
    if e[0] == 'deliver' and e[4]:
      return res.violate('worker %d of group %r received trial %d while trial(s) %r of its group were still pending; %s' % (
          e[1], e[2], e[3], e[4], ctx), law='new-trial-while-pending', **sig)
  if not shared_groups and len(all_delivered) != len(set(all_delivered)):
    dup = sorted({x for x in all_delivered if all_delivered.count(x) > 1})
    return res.violate('trial(s) %r were handed out more than once although no two workers share a group; %s' % (dup, ctx),
                       law='handed-out-twice', **sig)
  fb_count = {}
  for e in log:
    if e[0] == 'feedback':
      fb_count[e[1]] = fb_count.get(e[1], 0) + 1
  ended = any(a == 'end' for w in case['workers'] for a in w['actions'])
  n_completed = n_feasible = n_infeasible = 0
  for t in trials:
    acts = completing.get(t.id, set())
    must_complete = bool(acts - {'abandon'})
    if t.status == 'COMPLETED':
      n_completed += 1
      if t.infeasible:
        n_infeasible += 1
      else:
        n_feasible += 1
      want = 0 if t.infeasible else 1
      if fb_count.get(id(t.dna), 0) != want:
        return res.violate('trial %d (infeasible=%s) was reported to the algorithm %d time(s); %s' % (
            t.id, t.infeasible, fb_count.get(id(t.dna), 0), ctx), law='feedback-count', **sig)
    elif t.status == 'PENDING':
      if must_complete:
        return res.violate('trial %d is still PENDING although a worker reported it (%r); %s' % (t.id, sorted(acts), ctx),
                           law='lost-completion', **sig)
      if fb_count.get(id(t.dna), 0):
        return res.violate('pending trial %d was reported to the algorithm; %s' % (t.id, ctx), law='feedback-count', **sig)
    else:
      return res.violate('trial %d has status %r' % (t.id, t.status), law='status', **sig)
  known_dna = {id(t.dna) for t in trials}
  stray = [k for k in fb_count if k not in known_dna]
  if stray:
    return res.violate('the algorithm received %d feedback call(s) for DNAs of no trial of the study; %s' % (len(stray), ctx),
                       law='feedback-count', **sig)
  if case['algo'] != 'dedup' and algo.num_proposals != len(trials):
    return res.violate('the algorithm counts %d proposals, the study holds %d trials; %s' % (algo.num_proposals, len(trials), ctx),
                       law='proposal-count', **sig)
  if algo.num_feedbacks != n_feasible:
    return res.violate('the algorithm counts %d feedbacks, %d feasible trials completed; %s' % (algo.num_feedbacks, n_feasible, ctx),
                       law='feedback-counter', **sig)
  if case['algo'] in ('evo', 'evokeep'):
    # what the algorithm was told is what it holds: with the keep-all update every reported trial exactly once,
    # with the size-2 update the right number of reported trials
    pop_ids = sorted(id(d) for d in algo.population)
    fed_ids = sorted(k for k, c in fb_count.items() if c)
    if case['algo'] == 'evokeep' and pop_ids != fed_ids:
      return res.violate('the population holds %d DNAs (%d of them reported trials), %d trials were reported; %s' % (
          len(pop_ids), len(set(pop_ids) & set(fed_ids)), len(fed_ids), ctx), law='population', **sig)
    if case['algo'] == 'evo' and (len(pop_ids) != min(2, len(fed_ids)) or len(set(pop_ids)) != len(pop_ids)
                                  or not set(pop_ids) <= set(fed_ids)):
      return res.violate('the population holds %d DNAs (%d of them reported trials), %d trials were reported; %s' % (
          len(pop_ids), len(set(pop_ids) & set(fed_ids)), len(fed_ids), ctx), law='population', **sig)
  if case['algo'] == 'sweep':
    dnas = [tuple(t.dna.to_numbers()) for t in trials]
    if len(set(dnas)) != len(dnas):
      return res.violate('sweeping handed out a point twice: %r; %s' % (dnas, ctx), law='duplicate-proposal', **sig)
  # summary counters
  text = str(study)
  m_c = re.search(r"COMPLETED[^0-9]*(\d+)/(\d+)", text)
  m_p = re.search(r"PENDING[^0-9]*(\d+)/(\d+)", text)
  m_i = re.search(r"infeasible[^0-9]*(\d+)/(\d+)", text)
  got_c = int(m_c.group(1)) if m_c else 0
  got_p = int(m_p.group(1)) if m_p else 0
  got_i = int(m_i.group(1)) if m_i else 0
  if (got_c, got_p, got_i) != (n_completed, len(trials) - n_completed, n_infeasible):
    return res.violate('summary reports completed=%d pending=%d infeasible=%d, the trials say completed=%d pending=%d infeasible=%d; %s' % (
        got_c, got_p, got_i, n_completed, len(trials) - n_completed, n_infeasible, ctx), law='counters', **sig)
  feas = [t for t in trials if t.status == 'COMPLETED' and not t.infeasible and t.final_measurement is not None
          and t.final_measurement.reward is not None]
  best = study.best_trial
  if not feas:
    if best is not None:
      return res.violate('best trial is %d (infeasible=%s) although no feasible trial completed; %s' % (best.id, best.infeasible, ctx),
                         law='best-trial', **sig)
  else:
    top = max(t.final_measurement.reward for t in feas)
    if best is None or best.infeasible or best.final_measurement.reward != top:
      return res.violate('best trial is %s, the maximal reward among feasible completed trials is %r; %s' % (
          None if best is None else 'trial %d (reward %r, infeasible=%s)' % (best.id, best.final_measurement.reward, best.infeasible),
          top, ctx), law='best-trial', **sig)
  del ended
  return res


# ---------------------------------------------------------------------------------------------
# exhaustive sub-domains: every placement of one preemption (and of two, thorough) in fixed programs

EXHAUSTIVE_DOMAINS = {
    'one_preemption': '7 fixed programs (2 workers: separate groups / shared group with done+skip in both orders; sweep, evo, evokeep, random; N=2..3) x every '
                      'single preemption point 1..S (S = steps of the run-to-completion schedule + margin)',
    'two_preemptions': 'thorough only: the separate-groups sweep program x every pair of preemption points (stride 3)',
}

PROGRAMS = [
    {'algo': 'sweep', 'N': 2, 'sign': 1, 'workers': [{'group': None, 'actions': ['done']}, {'group': None, 'actions': ['done']}]},
    {'algo': 'sweep', 'N': 2, 'sign': -1, 'workers': [{'group': 0, 'actions': ['done']}, {'group': 0, 'actions': ['skip', 'done']}]},
    {'algo': 'evo', 'N': 3, 'sign': 1, 'workers': [{'group': None, 'actions': ['multi']}, {'group': None, 'actions': ['skip', 'done']}]},
    {'algo': 'random', 'N': 2, 'sign': -1, 'workers': [{'group': 'g', 'actions': ['skip']}, {'group': 'h', 'actions': ['done']}]},
    # co-workers racing with different verdicts on the same trial, the skipping one first
    {'algo': 'sweep', 'N': 2, 'sign': 1, 'workers': [{'group': 0, 'actions': ['skip']}, {'group': 0, 'actions': ['done']}]},
    {'algo': 'random', 'N': 3, 'sign': -1, 'workers': [{'group': None, 'actions': ['done']}, {'group': None, 'actions': ['done']}]},
    # two reports to an evolution whose population keeps everything it is told
    {'algo': 'evokeep', 'N': 3, 'sign': 1, 'workers': [{'group': None, 'actions': ['done']}, {'group': None, 'actions': ['done']}]},
]


def _steps_of(program):
  """Length of the run-to-completion schedule (measured, so the domain follows the code under test)."""
  probe = dict(program, sched={'kind': 'preempt', 'at': []})
  execute(probe)
  return _LAST_STEPS[0]


_LAST_STEPS = [0]
_orig_run = sched_lib.Sched.run


def _run_and_record(self, fns, timeout=50):
  out = _orig_run(self, fns, timeout)
  _LAST_STEPS[0] = self.steps
  return out


sched_lib.Sched.run = _run_and_record


def _one_preemption(tier):
  for p in PROGRAMS:
    total = _steps_of(p) + 40
    stride = 1 if tier != 'quick' else 2
    for at in range(1, total, stride):
      yield dict(p, sched={'kind': 'preempt', 'at': [at]})


def _two_preemptions(tier):
  if tier == 'quick':
    return
  p = PROGRAMS[0]
  total = _steps_of(p) + 40
  for a, b in itertools.combinations(range(1, total, 3), 2):
    yield dict(p, sched={'kind': 'preempt', 'at': [a, b]})


def exhaustive(tier):
  return {'one_preemption': _one_preemption(tier), 'two_preemptions': _two_preemptions(tier)}
