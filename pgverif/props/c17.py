"""C17 — scoped settings restore exactly and never leak across threads."""
import itertools
import threading
import typing

import pyglove as pg
from hypothesis import strategies as st
from pyglove.core import coding
from pyglove.core import utils as pg_utils
from pyglove.core.hyper import base as hyper_base
from pyglove.core.symbolic import flags

from pgverif import core

ID = 'C17'
RULE = ('1-3 threads, each running a generated well-nested program (depth <=5, <=16 blocks) of enter/exit events over 17 scope '
        'managers (7 flag scopes with True/False/None, contextual_override with cascade, str_format, repr_format, view_options with '
        'nested dict options, coding.context, coding.permission incl. the empty permission, detour, apply_wrappers, dynamic_evaluate '
        'per thread / process-wide with exit_fn, load_types_for_deserialization, timeit; plus "spawn" events that start a plain or a '
        'with_contextual_override-wrapped thread inside the current scopes), with exceptions raised at generated points '
        'and caught 0-2 levels further out, interleaved at event granularity by a harness-owned deterministic schedule. After every '
        'event the probe vector of the executing thread (public getters and behavioural probes) must equal a reference interpreter '
        'of the documented nesting rules, and after every block exit it must equal the vector recorded before the block was entered. '
        'Non-trivial: >=2 different managers nested under a non-default outer value and >=1 block left by an exception, or >=2 '
        'threads with overlapping scopes')
ASSUMPTIONS = [
    'process-wide managers (apply_wrappers, dynamic_evaluate(per_thread=False), load_types_for_deserialization) are used in '
    'single-thread programs only: restoration is checked, isolation is not claimed by the library',
    'dynamic_evaluate scopes of different modes are not nested into each other (the library asserts against it); they may follow each other',
    'detour mappings within one scope never use a class both as source and as destination (chains inside one scope are not documented)',
    'left-over thread-local entries that are equivalent to the initial state for every probe (empty stacks) are not findings',
    'threads are real threading.Thread objects; interleaving happens only at the harness-level yield points (after each event)',
]
BUDGET = {'quick': 3000, 'thorough': 100000}


class Boom(Exception):

  def __init__(self, levels):
    super().__init__('boom')
    self.levels = levels


# ---------------------------------------------------------------------------------------------
# fixtures


class S1:
  pass


class S2:
  pass


class D1:
  pass


class D2:
  pass


class PlainA:

  def __init__(self, x=0):
    self.x = x


WrappedA = pg.wrap(PlainA)
def fn_ok(cls, *args, **kwargs):
  """A function destination of a detour (may create instances of the source class itself)."""
  del cls, args, kwargs
  return D1()


def fn_raise(cls, *args, **kwargs):
  del cls, args, kwargs
  raise KeyError('destination function fails')


DETOUR_CLASSES = {'S1': S1, 'S2': S2, 'D1': D1, 'D2': D2, 'fn_ok': fn_ok, 'fn_raise': fn_raise}


class T1:
  pass


class T2:
  pass


class T1b:
  pass


T1b.__name__ = 'T1'
LOAD_TYPES = {'T1': T1, 'T2': T2, 'T1b': T1b}


class Fmt(pg_utils.Formattable):

  def format(self, compact=False, verbose=True, root_indent=0, **kwargs):
    return repr((compact, verbose, kwargs.get('k1'), kwargs.get('k2')))


_FMT = Fmt()
PERMS = {
    'none': coding.CodePermission(0),
    'basic': coding.CodePermission.BASIC,
    'loop': coding.CodePermission.BASIC | coding.CodePermission.LOOP,
    'all': coding.CodePermission.ALL,
}


def _ev(tag):
  def fn(x):
    del x
    return tag
  fn.tag = tag
  return fn


EVAL_FNS = {'f1': _ev('f1'), 'f2': _ev('f2')}

FLAGS = {
    'notify': (flags.notify_on_change, flags.is_change_notification_enabled, True, (True, False)),
    'origin': (flags.track_origin, flags.is_tracking_origin, False, (True, False)),
    'typecheck': (flags.enable_type_check, flags.is_type_check_enabled, True, (True, False)),
    'autocall': (flags.auto_call_functors, flags.should_call_functors_during_init, None, (True, False)),
    'writable': (flags.allow_writable_accessors, flags.is_under_accessor_writable_scope, None, (True, False, None)),
    'sealed': (flags.as_sealed, flags.is_under_sealed_scope, None, (True, False, None)),
    'partial': (flags.allow_partial, flags.is_under_partial_scope, None, (True, False, None)),
}
PER_THREAD = list(FLAGS) + ['ctx', 'strfmt', 'reprfmt', 'view', 'codectx', 'perm', 'detour', 'dyn', 'timeit', 'spawn']
PROCESS_WIDE = ['wrappers', 'dyn_global', 'loadtypes']
MANAGERS = PER_THREAD + PROCESS_WIDE


# ---------------------------------------------------------------------------------------------
# generators

_SMALL = st.sampled_from([0, 1, 2, 'v'])
_VARS = st.dictionaries(st.sampled_from(['x', 'y', 'z']), _SMALL, min_size=1, max_size=2)
_OPTS = st.dictionaries(
    st.sampled_from(['o1', 'o2', 'nest']),
    st.one_of(_SMALL, st.dictionaries(st.sampled_from(['p', 'q']), st.one_of(_SMALL, st.dictionaries(st.just('r'), _SMALL, max_size=1)),
                                      max_size=2)), min_size=1, max_size=2)


def _args(m):
  if m in FLAGS:
    return st.sampled_from(list(FLAGS[m][3]))
  if m == 'ctx':
    return st.fixed_dictionaries({'vars': _VARS, 'cascade': st.booleans(), 'oattrs': st.booleans()})
  if m in ('strfmt', 'reprfmt'):
    return st.dictionaries(st.sampled_from(['compact', 'verbose', 'k1', 'k2']), st.sampled_from([True, False, 1]), max_size=2)
  if m == 'view':
    return _OPTS
  if m == 'codectx':
    return st.dictionaries(st.sampled_from(['a', 'b', 'c']), _SMALL, max_size=2)
  if m == 'perm':
    return st.sampled_from(list(PERMS))
  if m == 'detour':
    return st.lists(st.tuples(st.sampled_from(['S1', 'S2']), st.sampled_from(['D1', 'D2', 'S2', 'S1', 'fn_ok', 'fn_raise'])), min_size=1, max_size=2,
                    unique_by=lambda p: p[0]).map(lambda ps: [list(p) for p in ps]).filter(
                        lambda ps: not ({p[0] for p in ps} & {p[1] for p in ps}))
  if m in ('dyn', 'dyn_global'):
    return st.fixed_dictionaries({'fn': st.sampled_from(['f1', 'f2', None]), 'exit': st.sampled_from([None, None, 'ok', 'raise'])})
  if m == 'timeit':
    return st.sampled_from(['t1', 't2', ''])
  if m == 'wrappers':
    return st.just(None)
  if m == 'spawn':
    return st.sampled_from(['plain', 'wrapped'])
  if m == 'loadtypes':
    return st.lists(st.sampled_from(list(LOAD_TYPES)), min_size=1, max_size=2, unique=True)
  raise ValueError(m)


def _block(managers, children):
  body = st.lists(children, max_size=3) if children is not None else st.just([])
  return st.sampled_from(managers).flatmap(lambda m: st.fixed_dictionaries({
      'm': st.just(m), 'a': _args(m), 'body': body,
      'raise': st.sampled_from([None, None, None, 0, 0, 1, 2])}))


def _program(managers):
  leaf = _block(managers, None)
  return st.lists(st.recursive(leaf, lambda c: _block(managers, c), max_leaves=8), min_size=1, max_size=3)


def strategy(tier):
  del tier
  single = st.fixed_dictionaries({'threads': st.lists(_program(MANAGERS), min_size=1, max_size=1), 'schedule': st.just([])})
  multi = st.fixed_dictionaries({'threads': st.lists(_program(PER_THREAD), min_size=2, max_size=3),
                                 'schedule': st.lists(st.integers(0, 5), min_size=4, max_size=40)})
  return st.one_of(single, single, multi)


# ---------------------------------------------------------------------------------------------
# reference interpreter of the documented nesting rules


def _deep_merge(a, b):
  out = dict(a)
  for k, v in b.items():
    if isinstance(v, dict) and isinstance(out.get(k), dict):
      out[k] = _deep_merge(out[k], v)
    else:
      out[k] = v
  return out


def expected(stack, glob):
  """The probe vector implied by a thread's stack of (manager, args) and the process-wide stack."""
  v = {}
  for name, (_, _, default, _) in FLAGS.items():
    tops = [a for m, a in stack if m == name]
    v[name] = tops[-1] if tops else default
  ctx = {}
  for m, a in stack:
    if m == 'ctx':
      for k, val in a['vars'].items():
        if k in ctx and ctx[k][1]:
          continue          # an enclosing cascading override wins
        ctx[k] = (val, bool(a['cascade']), bool(a.get('oattrs')))
  # the whole record of an override is the setting: value, cascade rule, whether bound attributes are overridden
  v['ctx'] = {k: list(x) for k, x in ctx.items()}
  v['ctx_attr'] = ctx['x'][0] if 'x' in ctx and ctx['x'][2] else 'own'
  for name in ('strfmt', 'reprfmt', 'codectx'):
    merged = {}
    for m, a in stack:
      if m == name:
        merged.update(a)
    v[name] = merged
  view = {}
  for m, a in stack:
    if m == 'view':
      view = _deep_merge(view, a)
  v['view'] = view
  perms = [a for m, a in stack if m == 'perm']
  v['perm'] = perms[0] if perms else None       # outermost wins
  mapping = {}
  for m, a in stack + glob:
    pairs = a if m == 'detour' else ([['PlainA', 'WrappedA']] if m == 'wrappers' else [])
    new = []
    for src, dest in pairs:
      if src not in mapping:
        new.append((src, mapping.get(dest, dest)))
    for src, dest in new:
      mapping[src] = dest
  shown = {'fn_ok': 'D1', 'fn_raise': 'raises'}      # what creating an instance gives for a function destination
  v['detour'] = {c: shown.get(mapping.get(c, c), mapping.get(c, c)) for c in ('S1', 'S2', 'PlainA')}
  dyn = [a['fn'] for m, a in stack if m == 'dyn']
  dyn_g = [a['fn'] for m, a in glob if m == 'dyn_global']
  v['dyn'] = dyn[-1] if dyn else (dyn_g[-1] if dyn_g else None)
  types = {}
  for m, a in glob:
    if m == 'loadtypes':
      for t in a:
        types[LOAD_TYPES[t].__name__] = t
  v['loadtypes'] = {n: types.get(n) for n in ('T1', 'T2')}
  return v


class _Component(pg.ContextualObject):
  x: typing.Any = 0


_COMPONENT = _Component(x='own')


def probe():
  v = {}
  for name, (_, getter, _, _) in FLAGS.items():
    v[name] = getter()
  values = dict(pg_utils.all_contextual_values())
  v['ctx'] = {}
  for k in values:
    o = pg_utils.get_contextual_override(k)
    v['ctx'][k] = [values[k], o.cascade, o.override_attrs] if o is not None else [values[k], None, None]
  for k in ('x', 'y', 'z'):
    got = pg_utils.contextual_value(k, None)
    o = pg_utils.get_contextual_override(k)
    if (k in values and (values[k] != got or o is None or o.value != got)) or (k not in values and (got is not None or o is not None)):
      v['ctx']['!getter-disagrees:' + k] = got
  # behaviour: a component whose attribute `x` is bound reads the override only if it overrides bound attributes
  v['ctx_attr'] = _COMPONENT.x
  v['strfmt'] = str(_FMT)
  v['reprfmt'] = repr(_FMT)
  with pg.view_options() as o:
    v['view'] = _plain(o)
  v['codectx'] = dict(coding.get_context())
  p = coding.get_permission()
  v['perm'] = None
  if p is not None:
    names = [k for k, x in PERMS.items() if x == p]
    v['perm'] = names[0] if names else repr(p)
  # (for the wrapped class the mapping is read rather than exercised: creating a symbolic object depends on flag scopes)
  dest = pg.detouring.current_mappings().get(PlainA, PlainA)
  def made(c):
    try:
      return type(c()).__name__
    except KeyError:
      return 'raises'
  # (each class is instantiated twice: a failing destination function must not disturb the mapping)
  made(S1), made(S2)
  v['detour'] = {'S1': made(S1), 'S2': made(S2), 'PlainA': dest.__name__ if dest is not WrappedA else 'WrappedA'}
  # (the getter rather than pg.oneof(...): creating a symbolic value depends on the flag scopes)
  fn = hyper_base.get_dynamic_evaluate_fn()
  v['dyn'] = getattr(fn, 'tag', None if fn is None else repr(fn))
  reg = pg_utils.JSONConvertible
  out = {}
  for n in ('T1', 'T2'):
    c = reg.class_from_typename('somewhere.' + n)
    out[n] = None if c is None else [k for k, t in LOAD_TYPES.items() if t is c][0]
  v['loadtypes'] = out
  return v


def _plain(o):
  if isinstance(o, dict):
    return {k: _plain(x) for k, x in o.items()}
  return o


def _fmt_expected(kwargs, is_str):
  # Formattable.__str__ / __repr__ start from the class defaults and apply the scoped kwargs
  base = dict(compact=False, verbose=True) if is_str else dict(compact=True)
  base.update(kwargs)
  compact = base.pop('compact', False)
  verbose = base.pop('verbose', True)
  return repr((compact, verbose, base.get('k1'), base.get('k2')))


def normalise_expected(v):
  v = dict(v)
  v['strfmt'] = _fmt_expected(v['strfmt'], True)
  v['reprfmt'] = _fmt_expected(v['reprfmt'], False)
  return v


def enter(m, a):
  if m in FLAGS:
    return FLAGS[m][0](a)
  if m == 'ctx':
    return pg.contextual_override(cascade=bool(a['cascade']), override_attrs=bool(a.get('oattrs')), **a['vars'])
  if m == 'strfmt':
    return pg.str_format(**a)
  if m == 'reprfmt':
    return pg.repr_format(**a)
  if m == 'view':
    return pg.view_options(**a)
  if m == 'codectx':
    return coding.context(**a)
  if m == 'perm':
    return coding.permission(PERMS[a])
  if m == 'detour':
    return pg.detour([(DETOUR_CLASSES[s], DETOUR_CLASSES[d]) for s, d in a])
  if m == 'wrappers':
    return pg.apply_wrappers([WrappedA])
  if m in ('dyn', 'dyn_global'):
    exit_fn = None
    if a.get('exit') == 'ok':
      exit_fn = lambda: None
    elif a.get('exit') == 'raise':
      def exit_fn():
        raise Boom(0)
    return pg.hyper.dynamic_evaluate(EVAL_FNS.get(a['fn']), exit_fn=exit_fn, per_thread=(m == 'dyn'))
  if m == 'timeit':
    return pg.timeit(a)
  if m == 'loadtypes':
    return pg_utils.JSONConvertible.load_types_for_deserialization(*[LOAD_TYPES[t] for t in a])
  raise core.InvalidCase(m)


def _validate(node, depth=0):
  if not isinstance(node, dict) or node.get('m') not in MANAGERS or not isinstance(node.get('body', []), list) or depth > 8:
    raise core.InvalidCase(node)
  m, a = node['m'], node.get('a')
  ok = True
  if m in FLAGS:
    ok = a in FLAGS[m][3] and (a is None or isinstance(a, bool))
  elif m == 'ctx':
    ok = isinstance(a, dict) and isinstance(a.get('vars'), dict) and a['vars'] and all(k in ('x', 'y', 'z') and v is not None for k, v in a['vars'].items())
  elif m in ('strfmt', 'reprfmt'):
    ok = isinstance(a, dict) and all(k in ('compact', 'verbose', 'k1', 'k2') for k in a)
  elif m in ('view', 'codectx'):
    ok = isinstance(a, dict) and all(isinstance(k, str) and k.isidentifier() for k in a)
  elif m == 'perm':
    ok = a in PERMS
  elif m == 'detour':
    ok = (isinstance(a, list) and a and all(isinstance(p, list) and len(p) == 2 and p[0] in ('S1', 'S2') and p[1] in DETOUR_CLASSES for p in a)
          and len({p[0] for p in a}) == len(a) and not ({p[0] for p in a} & {p[1] for p in a}))
  elif m in ('dyn', 'dyn_global'):
    ok = isinstance(a, dict) and a.get('fn') in ('f1', 'f2', None) and a.get('exit') in (None, 'ok', 'raise')
  elif m == 'timeit':
    ok = isinstance(a, str)
  elif m == 'loadtypes':
    ok = isinstance(a, list) and a and all(t in LOAD_TYPES for t in a)
  elif m == 'spawn':
    ok = a in ('plain', 'wrapped')
  r = node.get('raise')
  if not ok or not (r is None or (isinstance(r, int) and not isinstance(r, bool) and 0 <= r <= 3)):
    raise core.InvalidCase(node)
  for c in node.get('body', []):
    _validate(c, depth + 1)


class Runner:
  """Runs one thread's program against the reference; yields to the scheduler after every event."""

  def __init__(self, tid, program, shared, yield_fn):
    self.tid = tid
    self.program = program
    self.shared = shared          # {'glob': [...], 'violations': [...], 'lock': ...}
    self.stack = []
    self.yield_fn = yield_fn
    self.events = 0
    self.exc_exits = 0
    self.max_depth = 0
    self.nested_kinds = False
    self.timers = []
    self.spawned = False

  def violate(self, law, detail, **sig):
    self.shared['violations'].append((law, detail, sig))

  def check(self, where):
    if self.shared['violations']:
      return
    want = normalise_expected(expected(self.stack, self.shared['glob']))
    got = probe()
    for k in want:
      if got.get(k) != want[k]:
        self.violate('effective', 'thread %d %s: probe %r gives %r, the nesting rule gives %r; scopes of this thread=%r process-wide=%r' % (
            self.tid, where, k, got.get(k), want[k], self.stack, self.shared['glob']), manager=k)
        return

  def spawn(self, how):
    """A thread started inside the current scopes sees none of them - unless contextual overrides are propagated explicitly."""
    out = {}

    def body():
      out['v'] = probe()
    fn = pg.with_contextual_override(body) if how == 'wrapped' else body
    t = threading.Thread(target=fn)
    t.start()
    t.join(30)
    self.events += 1
    if 'v' not in out:
      self.violate('raises', 'thread %d: the thread started inside the scopes did not finish' % self.tid, exc='timeout')
      return
    want = normalise_expected(expected([], self.shared['glob']))
    if how == 'wrapped':
      full = normalise_expected(expected(self.stack, self.shared['glob']))
      want['ctx'], want['ctx_attr'] = full['ctx'], full['ctx_attr']
    got = out['v']
    skip = {'detour'} if any(m == 'wrappers' for m, _ in self.shared['glob']) else set()     # process-wide by documentation
    for k in want:
      if k not in skip and got.get(k) != want[k]:
        self.violate('leaks-into-new-thread' if how == 'plain' or k != 'ctx' else 'not-propagated',
                     'thread %d: a %s thread started inside the scopes %r reads %r = %r, expected %r' % (
                         self.tid, how, self.stack, k, got.get(k), want[k]), manager=k)
        return
    self.spawned = True

  def run_block(self, node, depth):
    m, a = node['m'], node.get('a')
    is_glob = m in PROCESS_WIDE
    if m == 'spawn':
      self.spawn(a)
      return
    if m in ('dyn', 'dyn_global'):
      # modes are not nested into each other
      other = 'dyn_global' if m == 'dyn' else 'dyn'
      if any(x == other for x, _ in self.stack + self.shared['glob']):
        return
    before = probe()
    entry = (m, a)
    names = {x for x, _ in self.stack}
    if names and (names - {m}) and any(expected(self.stack, [])[k] != expected([], [])[k] for k in expected([], [])):
      self.nested_kinds = True
    timer = None
    frame = None
    raised = None
    exit_fn_raises = m in ('dyn', 'dyn_global') and a.get('exit') == 'raise'
    try:
      with enter(m, a) as handle:
        if m == 'timeit':
          timer = handle
          frame = {'child_keys': set()}
          self.timers.append(frame)
        (self.shared['glob'] if is_glob else self.stack).append(entry)
        self.max_depth = max(self.max_depth, len(self.stack))
        self.events += 1
        self.check('after entering %s(%r)' % (m, a))
        self.yield_fn(self.tid)
        try:
          for c in node.get('body', []):
            self.run_block(c, depth + 1)
            if self.shared['violations']:
              break
          if node.get('raise') is not None:
            raise Boom(node['raise'])
        finally:
          (self.shared['glob'] if is_glob else self.stack).pop()
          if frame is not None:
            self.timers.pop()
    except Boom as b:
      raised = b
      self.exc_exits += 1
    self.events += 1
    if self.shared['violations']:
      return
    after = probe()
    if after != before:
      diff = [k for k in before if before[k] != after.get(k)]
      self.violate('not-restored', 'thread %d: after leaving %s(%r) %s the probes %r read %r, before entering they read %r' % (
          self.tid, m, a, 'by exception' if raised is not None else 'normally', diff, {k: after.get(k) for k in diff},
          {k: before[k] for k in diff}), manager=m, exit='exception' if raised is not None else 'normal',
                   **({'exit_fn': 'raises'} if exit_fn_raises else {}))
      return
    self.check('after leaving %s(%r)' % (m, a))
    if frame is not None:
      own = a
      keys = {own} | {('%s.%s' % (own, k) if own else k) for k in frame['child_keys']}
      if self.timers:
        self.timers[-1]['child_keys'] |= keys
      if not self.shared['violations']:
        got = sorted(timer.status().keys())
        if got != sorted(keys):
          self.violate('timeit-children', 'thread %d: timeit(%r) recorded %r, the timeit blocks entered inside it are %r' % (
              self.tid, a, got, sorted(keys)), manager='timeit')
    self.yield_fn(self.tid)
    if raised is not None and raised.levels > 0 and not (exit_fn_raises and node.get('raise') is None):
      raised.levels -= 1
      raise raised

  def run(self):
    try:
      self.check('at start')
      for node in self.program:
        if self.shared['violations']:
          break
        try:
          self.run_block(node, 0)
        except Boom:
          self.exc_exits += 1
      if not self.shared['violations']:
        self.check('at the end')
    except RecursionError:
      raise
    except Exception as e:   # pylint: disable=broad-except
      import traceback
      self.violate('raises', 'thread %d: the program raised %s: %s\n%s' % (self.tid, type(e).__name__, e, traceback.format_exc()[-900:]), exc=type(e).__name__)


def execute(case):
  res = core.Result()
  if not isinstance(case, dict) or not isinstance(case.get('threads'), list) or not case['threads'] or len(case['threads']) > 4:
    raise core.InvalidCase(case)
  progs = case['threads']
  for p in progs:
    if not isinstance(p, list):
      raise core.InvalidCase(case)
    for n in p:
      _validate(n)
  schedule = case.get('schedule') or []
  if not isinstance(schedule, list) or any(isinstance(x, bool) or not isinstance(x, int) or x < 0 for x in schedule):
    raise core.InvalidCase(case)
  multi = len(progs) > 1
  if multi:
    def has_glob(n):
      return n['m'] in PROCESS_WIDE or any(has_glob(c) for c in n.get('body', []))
    if any(has_glob(n) for p in progs for n in p):
      raise core.InvalidCase(case)
  shared = {'glob': [], 'violations': []}
  overlap = [False]
  if not multi:
    r = Runner(0, progs[0], shared, lambda tid: None)
    # run in a fresh thread so that left-overs of earlier cases in this process cannot matter
    t = threading.Thread(target=r.run)
    t.start()
    t.join(60)
    runners = [r]
  else:
    n = len(progs)
    sems = [threading.Semaphore(0) for _ in range(n)]
    ctrl = threading.Semaphore(0)
    done = [False] * n
    runners = []

    def yield_fn(tid):
      if sum(1 for x in runners if x.stack) >= 2:
        overlap[0] = True
      ctrl.release()
      if not sems[tid].acquire(timeout=30):
        raise RuntimeError('scheduler stalled')

    def body(tid):
      sems[tid].acquire()
      try:
        runners[tid].run()
      finally:
        done[tid] = True
        ctrl.release()
    for i, p in enumerate(progs):
      runners.append(Runner(i, p, shared, yield_fn))
    threads = [threading.Thread(target=body, args=(i,)) for i in range(n)]
    for t in threads:
      t.start()
    step = 0
    while not all(done):
      alive = [i for i in range(n) if not done[i]]
      pick = alive[(schedule[step % len(schedule)] if schedule else step) % len(alive)]
      step += 1
      sems[pick].release()
      if not ctrl.acquire(timeout=30):
        raise RuntimeError('scheduler stalled (controller)')
    for t in threads:
      t.join(30)
  for law, detail, sig in shared['violations'][:1]:
    res.violate(detail, law=law, threads=str(len(progs)), **sig)
  res.label('threads:%d' % len(progs))
  exc_exits = sum(r.exc_exits for r in runners)
  if exc_exits:
    res.label('exception-exit')
  if any(r.nested_kinds for r in runners):
    res.label('nested-kinds')
  if overlap[0]:
    res.label('overlapping-threads')
  if any(r.spawned for r in runners):
    res.label('spawned-thread')
  if (any(r.nested_kinds for r in runners) and exc_exits) or overlap[0]:
    res.nontrivial = True
  return res


# ---------------------------------------------------------------------------------------------
# exhaustive sub-domain: all nestings of depth <=3 of the 7 flag scopes with every value

EXHAUSTIVE_DOMAINS = {
    'flag_nestings': 'every nesting of depth 1..3 of the 7 flag scopes (18 scope/value choices per level; 18+18^2+18^3 = 6174 programs), '
                     'probed after every enter and exit; the innermost block is left by an exception',
    'mixed_pairs': 'every ordered pair of (manager, canonical argument) nested in each other, for all 20 managers x 2-3 arguments, '
                   'left normally and by exception',
}


def _flag_choices():
  return [(m, v) for m in FLAGS for v in FLAGS[m][3]]


def _flag_nestings(tier):
  ch = _flag_choices()
  for depth in (1, 2, 3):
    for combo in itertools.product(ch, repeat=depth):
      node = None
      for i, (m, v) in enumerate(reversed(combo)):
        node = {'m': m, 'a': v, 'body': [node] if node else [], 'raise': 0 if i == 0 else None}
      yield {'threads': [[node]], 'schedule': []}


CANON = {
    'ctx': [{'vars': {'x': 1}, 'cascade': False}, {'vars': {'x': 2, 'y': 1}, 'cascade': True},
            {'vars': {'x': 3}, 'cascade': False, 'oattrs': True}],
    'strfmt': [{'compact': True}, {'k1': 1, 'verbose': False}],
    'reprfmt': [{'compact': False}, {'k2': 1}],
    'view': [{'o1': 1, 'nest': {'p': 1}}, {'nest': {'q': {'r': 2}}}, {'nest': 0}],
    'codectx': [{'a': 1}, {'a': 2, 'b': 1}],
    'perm': ['none', 'basic', 'all'],
    'detour': [[['S1', 'D1']], [['S2', 'D2'], ['S1', 'S2']][:1], [['S1', 'S2']], [['S1', 'fn_raise']], [['S2', 'fn_ok']]],
    'dyn': [{'fn': 'f1', 'exit': None}, {'fn': 'f2', 'exit': 'raise'}, {'fn': None, 'exit': 'ok'}],
    'dyn_global': [{'fn': 'f1', 'exit': None}, {'fn': 'f2', 'exit': 'raise'}],
    'timeit': ['t1', ''],
    'wrappers': [None],
    'loadtypes': [['T1'], ['T1b', 'T2']],
    'spawn': ['plain', 'wrapped'],
}


def _mixed_pairs(tier):
  del tier
  ch = [(m, FLAGS[m][3][1]) for m in FLAGS] + [(m, a) for m, args in CANON.items() for a in args]
  for (m1, a1), (m2, a2), r in itertools.product(ch, ch, (None, 0, 1)):
    inner = {'m': m2, 'a': a2, 'body': [], 'raise': r}
    yield {'threads': [[{'m': m1, 'a': a1, 'body': [inner, {'m': m2, 'a': a2, 'body': [], 'raise': None}], 'raise': None},
                        {'m': m2, 'a': a2, 'body': [], 'raise': None}]], 'schedule': []}


def exhaustive(tier):
  return {'flag_nestings': _flag_nestings(tier), 'mixed_pairs': _mixed_pairs(tier)}
