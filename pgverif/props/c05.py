"""C05 — serialization and persistence round trip: what is saved is what is loaded."""
import copy
import json
import math
import os
import pickle
import shutil
import tempfile

import pyglove as pg
from hypothesis import strategies as st

from pgverif import core
from pgverif.gen import classes
from pgverif.gen import specs
from pgverif.gen import values
from pgverif.props import c01

ID = 'C05'
RULE = ('two case kinds. (value) a serializable value - trees of Dict/List/typed and untyped Objects, tuples, int '
        'keys, special floats, control/unicode strings, classes, functions and lambdas, value specs, DNASpecs, DNAs, '
        'partial objects; format-reserved markers in a separately labelled class - round-tripped through to_json/from_json, '
        'to_json_str/from_json_str, pickle and copy.deepcopy: equal (NaN-aware), same type, same hash, same schema-backed '
        'behaviour, well-formed tree. (files) a history of save / overwrite / load / jsonl write-append-read / raw line '
        'sequences / writefile / readfile / rm / mkdirs / listdir over a small path set on the in-memory and the standard '
        'file system against a model dict. Non-trivial: (value) depth>=2 and >=1 of tuple, int key, Object, spec, DNA, '
        'special float, non-ASCII text; (files) an overwrite followed by a load of the same path; distinct = case JSON')
ASSUMPTIONS = [
    'functions defined in <locals> (other than lambdas) and classes not importable by name are not serializable by design',
    'NaN compares equal to NaN in the round-trip comparison',
    'non-symbolic opaque leaves are not serializable and are not generated',
]
BUDGET = {'quick': 5000, 'thorough': 120000}

MEM_PATHS = ['/mem/a.json', '/mem/m.json', '/mem/e/m.json', '/mem/mm/em.jsonl', '/mem/zz/q.txt', '/mem/e/r.jsonl']
STD_PATHS = ['x.json', 'd/y.json', 'd/z.jsonl', 'q.txt', 'd/e/w.json', 'r.jsonl']
TEXTS = ['', 'a', 'line1\nline2', 'tab\tq"uote\\', 'é☃𝄞', '\x00\x1f', ' trailing ', '{"_type": "x"}',
         # characters that str.splitlines() treats as line boundaries but a record sequence does not
         'a\x0bb', 'x\x85y', 'p\u2028q', 'c\rd', 'e\x1cf\x0c']


def module_fn(x, y=1):
  return x + y


LAMBDA = lambda x: x * 2   # pylint: disable=unnecessary-lambda-assignment


def _leaf():
  return st.one_of(
      st.integers(-3, 3), st.sampled_from(['a', 'b', '', None, True, False]),
      st.sampled_from([0.5, -0.0, 1e308, {'$f': 'inf'}, {'$f': '-inf'}, {'$f': 'nan'}, 2 ** 63, -2 ** 63]),
      st.sampled_from(['é☃', '\x00\x01\x1f', 'a\nb\tc', '"quoted"\\', '😀'.encode('utf-16', 'surrogatepass').decode('utf-16'),
                       '𝄞', ' ']),
      st.sampled_from([{'$cls': 'P'}, {'$cls': 'Typed'}, {'$cls': 'int'}, {'$fn': 'module'}, {'$fn': 'lambda'}, {'$fn': 'builtin'},
                       {'$fn': 'builtin_of_module'}]),
      st.sampled_from([{'$o': 'Req', 'a': {}}, {'$o': 'Req', 'a': {'r': 2}}]),
      st.sampled_from([{'$o': 'DV', 'a': {'d': {'$d': [['k', 1], ['u1', 5], ['u2', 6]]}}}, {'$o': 'DV', 'a': {'f': {'$d': [['a', 1], ['b', 1]]}}},
                       {'$o': 'DV', 'a': {'d': {'$d': [['u9', 5]]}, 'f': {'$d': [['q', 1]]}}}]),
      st.sampled_from([{'$dna': 1}, {'$dna': [0, 1]}, {'$dna': [{'$t': [0, [1, 0.5]]}, 2]}, {'$dna': None}]),
      st.builds(lambda s: {'$spec': s}, specs.spec_strategy(max_leaves=3, objects=False)),
      st.sampled_from([{'$dnaspec': 'oneof'}, {'$dnaspec': 'manyof'}, {'$dnaspec': 'space'}, {'$dnaspec': 'float'}]),
      st.sampled_from([{'$hyper': 'oneof', 'c': [1, 2]}, {'$hyper': 'floatv', 'c': []}]),
  )


def _marker():
  return st.sampled_from([
      ['__tuple__', 1], {'$d': [['_type', 'x']]}, {'$d': [['n_:1', 2]]}, {'$d': [['_type', 'pgverif.gen.classes.P']]},
      {'$d': [['__tuple__', 1]]}, ['__tuple__'], {'$t': []}])


def value_strategy():
  keys = ['k', 'm', 'a.b', 'x y', 0, 1, -2, 'é']
  base = values.vdesc(max_leaves=8, keys=keys, objects=True, tuples=True, typed=True, scalars=_leaf(), functors=True)
  return st.one_of(base, base, base, st.tuples(base, _marker()).map(list))


def strategy(tier):
  n = 14 if tier == 'quick' else 28
  value_case = st.fixed_dictionaries({'kind': st.just('value'), 'v': value_strategy(),
                                      'sym': st.booleans()})
  fop = st.fixed_dictionaries({
      'op': st.sampled_from(['save', 'save', 'load', 'load', 'jsonl_w', 'jsonl_a', 'jsonl_r', 'lines_w', 'lines_a',
                             'lines_r', 'writefile', 'readfile', 'rm', 'mkdirs', 'listdir', 'exists']),
      'p': st.integers(0, 5), 'v': values.vdesc(max_leaves=5, keys=['k', 'm', 0], objects=True, tuples=True),
      'n': st.integers(0, 3), 'x': st.integers(0, len(TEXTS) - 1)})
  files_case = st.fixed_dictionaries({'kind': st.just('files'), 'fs': st.sampled_from(['mem', 'std']),
                                      'ops': st.lists(fop, min_size=1, max_size=n)})
  return st.one_of(value_case, value_case, files_case)


# ---------------------------------------------------------------------------


def build(d, symbolic):
  if isinstance(d, dict):
    if '$f' in d:
      return float(d['$f'])
    if '$cls' in d:
      return {'P': classes.P, 'Typed': classes.Typed, 'int': int}.get(d['$cls'], classes.P)
    if '$fn' in d:
      return {'module': module_fn, 'builtin': len, 'builtin_of_module': math.sqrt}.get(d['$fn'], LAMBDA)
    if '$spec' in d:
      try:
        return specs.to_spec(d['$spec'])
      except specs.SpecBuildError as e:
        raise core.InvalidCase(d) from e
    if '$dnaspec' in d:
      k = d['$dnaspec']
      if k == 'oneof':
        return pg.geno.oneof([pg.geno.constant(), pg.geno.oneof([pg.geno.constant(), pg.geno.constant()], name='y')], name='x')
      if k == 'manyof':
        return pg.geno.manyof(2, [pg.geno.constant(), pg.geno.constant(), pg.geno.floatv(0.0, 1.0)], literal_values=['a', 1, 2.5])
      if k == 'float':
        return pg.geno.floatv(-1.0, 1.0, name='f')
      return pg.geno.space([pg.geno.oneof([pg.geno.constant(), pg.geno.constant()]), pg.geno.floatv(0.0, 2.0)])
    if '$d' in d:
      v = {}
      for kv in d['$d']:
        if not (isinstance(kv, list) and len(kv) == 2 and isinstance(kv[0], (str, int))
                and not isinstance(kv[0], bool) and kv[0] != ''):
          raise core.InvalidCase(d)
        v[kv[0]] = build(kv[1], symbolic)
      return pg.Dict(v) if symbolic else v
    if '$o' in d:
      cls = classes.CLASSES.get(d['$o'])
      if cls is None or not isinstance(d.get('a', {}), dict):
        raise core.InvalidCase(d)
      kw = {k: build(x, symbolic) for k, x in d.get('a', {}).items()}
      try:
        if (cls is classes.Req and 'r' not in kw) or values._has_partial(d.get('a', {})):   # pylint: disable=protected-access
          return cls.partial(**kw)
        return cls(**kw)
      except (TypeError, ValueError, KeyError) as e:
        raise core.InvalidCase(d) from e
    if '$t' in d:
      if not isinstance(d['$t'], list):
        raise core.InvalidCase(d)
      return tuple(build(x, symbolic) for x in d['$t'])
    return values.build(d, symbolic)
  if isinstance(d, list):
    v = [build(x, symbolic) for x in d]
    return pg.List(v) if symbolic else v
  return d


def snap(v):
  """NaN-aware structural snapshot (types of leaves included)."""
  if isinstance(v, pg.Symbolic) and not isinstance(v, (pg.typing.ValueSpec,)):
    try:
      items = tuple((k, snap(x)) for k, x in v.sym_items())
    except Exception:   # pylint: disable=broad-except
      items = repr(v)
    return (type(v).__name__, items)
  if isinstance(v, tuple):
    return ('tuple', tuple(snap(x) for x in v))
  if isinstance(v, list):
    return ('list', tuple(snap(x) for x in v))
  if isinstance(v, dict):
    return ('dict', tuple((k, snap(x)) for k, x in v.items()))
  if isinstance(v, float):
    return ('float', 'nan' if math.isnan(v) else repr(v))
  if callable(v) or isinstance(v, type):
    return ('callable', getattr(v, '__qualname__', repr(v)))
  if isinstance(v, pg.typing.ValueSpec):
    return ('spec', repr(v))
  return (type(v).__name__, repr(v))


def _has_nan(v):
  if isinstance(v, float):
    return math.isnan(v)
  if isinstance(v, pg.Symbolic):
    return any(_has_nan(x) for _, x in v.sym_items())
  if isinstance(v, (list, tuple)):
    return any(_has_nan(x) for x in v)
  if isinstance(v, dict):
    return any(_has_nan(x) for x in v.values())
  return False


def _features(d, out, depth=0):
  out['depth'] = max(out.get('depth', 0), depth)
  if isinstance(d, list):
    for x in d:
      _features(x, out, depth + 1)
  elif isinstance(d, dict):
    for tag in ('$t', '$o', '$spec', '$dna', '$dnaspec', '$f', '$cls', '$fn', '$hyper'):
      if tag in d:
        out[tag] = True
    if '$d' in d:
      for k, x in d['$d']:
        if isinstance(k, int):
          out['intkey'] = True
        _features(x, out, depth + 1)
    if '$o' in d:
      for x in d.get('a', {}).values():
        _features(x, out, depth + 1)
    if '$t' in d and isinstance(d['$t'], list):
      for x in d['$t']:
        _features(x, out, depth + 1)
  elif isinstance(d, str) and any(ord(c) > 127 for c in d):
    out['nonascii'] = True


def _has_vtuple0(d):
  if isinstance(d, dict):
    if d.get('t') == 'vtuple' and d.get('max') == 0:
      return True
    return any(_has_vtuple0(v) for v in d.values())
  if isinstance(d, list):
    return any(_has_vtuple0(v) for v in d)
  return False


def _marker_kind(d):
  """Which reserved marker (if any) the descriptor contains."""
  found = set()

  def walk(x):
    if isinstance(x, list):
      if x and x[0] == '__tuple__':
        found.add('tuple-marker-list')
      for y in x:
        walk(y)
    elif isinstance(x, dict):
      if '$d' in x:
        for k, y in x['$d']:
          if k == '_type':
            found.add('_type-key')
          if isinstance(k, str) and k.startswith('n_:'):
            found.add('n_-key')
          if k == '__tuple__':
            found.add('tuple-marker-key')
          walk(y)
      elif '$t' in x and isinstance(x['$t'], list):
        if not x['$t']:
          found.add('empty-tuple')
        for y in x['$t']:
          walk(y)
      elif '$o' in x:
        for y in x.get('a', {}).values():
          walk(y)
      elif '$spec' in x:
        if '"t": "vtuple"' in json.dumps(x) and _has_vtuple0(x['$spec']):
          found.add('vtuple-max0')
  walk(d)
  return ','.join(sorted(found))


def _marker_sig(marker):
  """One signature key per reserved marker present in the case (each is a recorded finding)."""
  return {'m_' + m.replace('-', '_'): '1' for m in marker.split(',') if m}


def _value_case(case, res):
  desc = case.get('v')
  sym = bool(case.get('sym'))
  v = build(desc, sym)
  feats = {}
  _features(desc, feats)
  marker = _marker_kind(desc)
  try:
    if '["__tuple__"]' in json.dumps(pg.to_json(v), default=str) and 'empty-tuple' not in marker:
      # an empty tuple that does not come from the descriptor (e.g. the default of a Tuple spec)
      marker = ','.join(sorted(set(filter(None, marker.split(','))) | {'empty-tuple'}))
  except Exception:   # pylint: disable=broad-except
    pass
  if marker:
    res.label('reserved-marker')
  if feats.get('depth', 0) >= 2 and any(k != 'depth' for k in feats):
    res.nontrivial = True
  for k in feats:
    if k != 'depth':
      res.label('has:' + k)
  sig = _marker_sig(marker)
  # a class defined again under the same name (a notebook cell run twice, a factory called twice): values of the
  # latest definition come back as instances of it, whatever was loaded before
  cls = _define_again()
  try:
    held = cls(x=1)
    back = pg.from_json(pg.to_json(held))
  except RecursionError:
    raise
  except Exception as e:   # pylint: disable=broad-except
    return res.violate('round trip of an instance of a re-defined class raised %r' % e, law='roundtrip-raises', route='json-redefined',
                       exc=type(e).__name__, **sig)
  if type(back) is not cls:
    return res.violate('an instance of the class %s defined again came back as an instance of an earlier definition' % cls.__name__,
                       law='roundtrip-type', route='json-redefined', **sig)
  base = snap(v)
  routes = []
  def json_twice():
    # the JSON object form is a value of the caller: reading it leaves it as it is (and reading it again gives the same)
    j = pg.to_json(v)
    keep = copy.deepcopy(j)
    w1 = pg.from_json(j, allow_partial=True)
    if repr(j) != repr(keep):       # (repr: NaN is not == to itself)
      raise _JsonConsumed(keep, j)
    return w1
  routes.append(('json', json_twice))
  routes.append(('json_str', lambda: pg.from_json_str(pg.to_json_str(v), allow_partial=True)))
  if isinstance(v, pg.Symbolic):
    routes.append(('json_hide_default', lambda: pg.from_json(pg.to_json(v, hide_default_values=True), allow_partial=True)))
  routes.append(('deepcopy', lambda: copy.deepcopy(v)))
  if not feats.get('$fn') or True:
    routes.append(('pickle', lambda: pickle.loads(pickle.dumps(v))))
  for name, fn in routes:
    if name == 'pickle' and 'lambda' in json.dumps(desc):
      continue    # lambdas cannot be pickled by Python itself
    try:
      w = fn()
    except RecursionError:
      raise
    except _JsonConsumed as e:
      return res.violate('from_json modified the JSON value it was given: %s -> %s' % (
          core.safe_repr(e.args[0]), core.safe_repr(e.args[1])), law='from-json-modifies-input', route=name, **sig)
    except Exception as e:   # pylint: disable=broad-except
      return res.violate('%s round trip of %s raised %r' % (name, core.safe_repr(v), e), law='roundtrip-raises', route=name,
                         exc=type(e).__name__, **sig)
    if snap(v) != base:
      return res.violate('%s modified the original value' % name, law='roundtrip-mutates', route=name, **sig)
    want_type = type(v)
    if name in ('json', 'json_str', 'json_hide_default') and not isinstance(v, pg.Symbolic):
      # plain containers come back as symbolic ones (documented); tuples stay tuples
      if isinstance(v, list):
        want_type = pg.List
      elif isinstance(v, dict):
        want_type = pg.Dict
    if type(w) is not want_type:
      return res.violate('%s of %s returned a %s (%s)' % (name, core.safe_repr(v), type(w).__name__, core.safe_repr(w)), law='roundtrip-type', route=name, **sig)
    if _has_nan(v):
      # (NaN is not == to itself: structural comparison; on the hide-default route numbers are compared by value,
      # see the note below)
      lenient = name == 'json_hide_default'
      same = _loose_snap(v, lenient) == _loose_snap(w, lenient)
    else:
      try:
        same = pg.eq(v, w) and pg.eq(w, v)
      except Exception as e:   # pylint: disable=broad-except
        return res.violate('pg.eq raised %r after %s' % (e, name), law='eq-raises', route=name, **sig)
      if name != 'json_hide_default':
        # (with defaults hidden, a value that is == to its default comes back as the default: -0.0 / False for a
        # default of 0 are symbolically equal to it, which is what the property asks; leaves are compared by kind
        # on the other routes)
        same = same and _loose_snap(v) == _loose_snap(w)
    if not same:
      return res.violate('%s of %s gives %s' % (name, core.safe_repr(v), core.safe_repr(w)), law='roundtrip-differs', route=name, **sig)
    if isinstance(v, pg.Symbolic):
      try:
        hv, hw = pg.hash(v), pg.hash(w)
      except TypeError:
        hv = hw = None
      if hv != hw and not _has_nan(v):
        return res.violate('hash differs after %s of %s' % (name, core.safe_repr(v)), law='roundtrip-hash', route=name, **sig)
    if isinstance(w, pg.Symbolic) and not isinstance(w, (pg.typing.ValueSpec, pg.geno.DNASpec, pg.DNA)):
      inv, detail = c01.walk_check([w])
      if inv is not None:
        return res.violate('%s result is not a well-formed tree: %s' % (name, detail), law='roundtrip-malformed',
                           route=name, inv=inv, **sig)
      # a functor keeps apart the arguments it was given and those it holds by default (only the former are frozen
      # for the call): a copy tells them apart the same way
      fv, fw = _functor_nodes(v), _functor_nodes(w)
      for a, b in zip(fv, fw):
        if sorted(a.specified_args) != sorted(b.specified_args):
          return res.violate('functor %r: specified arguments %r, after %s %r' % (
              a, sorted(a.specified_args), name, sorted(b.specified_args)), law='roundtrip-functor-bookkeeping', route=name, **sig)
      # schema-backed behaviour: a near-miss write is rejected by both
      for node_v, node_w in zip(_typed_nodes(v), _typed_nodes(w)):
        rv = _rejects(node_v)
        rw = _rejects(node_w)
        if rv != rw:
          return res.violate('typed node behaves differently after %s: original rejects=%r, loaded rejects=%r' % (
              name, rv, rw), law='roundtrip-schema-behaviour', route=name, **sig)
  return res


def _loose_snap(v, lenient=False):
  """snapshot in which plain and symbolic containers of the same content coincide (lenient: numbers by value)."""
  if lenient:
    if isinstance(v, (bool, int, float)):
      return ('num', 'nan' if isinstance(v, float) and math.isnan(v) else repr(float(v) + 0.0))
    if isinstance(v, (pg.List, list)) and not isinstance(v, tuple):
      return ('list', tuple(_loose_snap(x, True) for x in (v.sym_values() if isinstance(v, pg.List) else v)))
    if isinstance(v, (pg.Dict, dict)):
      items = v.sym_items() if isinstance(v, pg.Dict) else v.items()
      return ('dict', tuple(sorted(((repr(k), _loose_snap(x, True)) for k, x in items))))
    if isinstance(v, tuple):
      return ('tuple', tuple(_loose_snap(x, True) for x in v))
    if isinstance(v, pg.Symbolic) and not isinstance(v, pg.typing.ValueSpec):
      try:
        return (type(v).__name__, tuple((k, _loose_snap(x, True)) for k, x in v.sym_items()))
      except Exception:   # pylint: disable=broad-except
        return (type(v).__name__, repr(v))
  if isinstance(v, (pg.List, list)) and not isinstance(v, tuple):
    items = v.sym_values() if isinstance(v, pg.List) else v
    return ('list', tuple(_loose_snap(x) for x in items))
  if isinstance(v, (pg.Dict, dict)):
    items = v.sym_items() if isinstance(v, pg.Dict) else v.items()
    return ('dict', tuple(sorted(((repr(k), _loose_snap(x)) for k, x in items))))
  if isinstance(v, tuple):
    return ('tuple', tuple(_loose_snap(x) for x in v))
  if isinstance(v, pg.typing.ValueSpec):
    return ('spec', repr(v))
  if isinstance(v, pg.Symbolic):
    try:
      return (type(v).__name__, tuple((k, _loose_snap(x)) for k, x in v.sym_items()))
    except Exception:   # pylint: disable=broad-except
      return (type(v).__name__, repr(v))
  if isinstance(v, float):
    return ('float', 'nan' if math.isnan(v) else repr(v))
  if callable(v) or isinstance(v, type):
    return ('callable', getattr(v, '__qualname__', repr(v)))
  return (type(v).__name__, repr(v))


def _define_again():
  class Redefined(pg.Object):     # pylint: disable=unused-variable
    x: pg.typing.Any() = 0
  return Redefined


class _JsonConsumed(Exception):
  pass


def _functor_nodes(v):
  out = []

  def walk(x):
    if isinstance(x, pg.Functor):
      out.append(x)
    if isinstance(x, pg.Symbolic) and not isinstance(x, (pg.typing.ValueSpec, pg.DNA, pg.geno.DNASpec)):
      for _, y in x.sym_items():
        walk(y)
    elif isinstance(x, (list, tuple)):
      for y in x:
        walk(y)
    elif isinstance(x, dict):
      for y in x.values():
        walk(y)
  walk(v)
  return out


def _typed_nodes(v):
  out = []

  def walk(x):
    if isinstance(x, classes.Typed):
      out.append(x)
    if isinstance(x, pg.Symbolic) and not isinstance(x, (pg.typing.ValueSpec, pg.DNA, pg.geno.DNASpec)):
      for _, y in x.sym_items():
        walk(y)
    elif isinstance(x, (list, tuple)):
      for y in x:
        walk(y)
    elif isinstance(x, dict):
      for y in x.values():
        walk(y)
  walk(v)
  return out[:3]


def _rejects(node):
  probe = node.clone(deep=True)
  outs = []
  for kw in ({'i': 100}, {'s': 5}, {'l': [1, 2, 3, 4]}, {'e': 'zz'}):
    try:
      probe.rebind(**kw)
      outs.append(False)
    except (TypeError, ValueError, KeyError):
      outs.append(True)
  return outs


# ---------------------------------------------------------------------------


def _mem_cleanup():
  for p in MEM_PATHS:
    try:
      if pg.io.path_exists(p):
        pg.io.rm(p)
    except Exception:   # pylint: disable=broad-except
      pass
  for d in ('/mem/e', '/mem/mm', '/mem/zz'):
    try:
      pg.io.rmdirs(d)
    except Exception:   # pylint: disable=broad-except
      pass


def _files_case(case, res):
  fs = case.get('fs')
  if fs not in ('mem', 'std'):
    raise core.InvalidCase(case)
  res.label('fs:' + fs)
  tmp = None
  if fs == 'std':
    tmp = tempfile.mkdtemp(prefix='pgv_c05_')
    paths = [os.path.join(tmp, p) for p in STD_PATHS]
  else:
    _mem_cleanup()
    paths = list(MEM_PATHS)
  model = {}       # path -> ('json', value) | ('text', str) | ('jsonl', [values]) | ('lines', [str])
  overwritten = set()
  unclosed = []
  try:
    for op in case.get('ops', []):
      if not isinstance(op, dict) or not isinstance(op.get('op'), str):
        raise core.InvalidCase(op)
      name = op['op']
      p = paths[op.get('p', 0) % len(paths)]
      short = p if fs == 'mem' else os.path.relpath(p, tmp)
      n = op.get('n', 0)
      res.label('op:' + name)
      sig = {'op': name, 'fs': fs, 'name0': os.path.basename(p)[0] if fs == 'mem' else '-'}
      mk = ','.join(sorted({m for c in ([op.get('v')] + [x for k_, x in [model.get(p, (None, None))] if x is not None]) for m in [_marker_kind(c)] if m}))
      sig.update(_marker_sig(mk))

      def ensure_dir():
        pg.io.mkdirs(os.path.dirname(p))
      try:
        if name == 'save':
          v = values.build(op.get('v'), True)
          ensure_dir()
          if n == 3 and p in model:
            # a reader of the path that was read to the end and never closed precedes the overwrite
            try:
              rd = pg.io.open_sequence(p, 'r')
              for _ in rd:
                pass
              unclosed.append(rd)
              res.label('unclosed-reader-before-overwrite')
            except Exception:   # pylint: disable=broad-except
              pass
          pg.save(v, p)
          if p in model:
            overwritten.add(p)
          model[p] = ('json', op.get('v'))
        elif name == 'load':
          if p in model and model[p][0] == 'json':
            got = pg.load(p)
            want = values.build(model[p][1], True)
            if not pg.eq(got, want) or _loose_snap(got) != _loose_snap(want):
              return res.violate('load(%s) returned %r, last saved %r' % (short, got, want), law='load-differs', **sig)
            if p in overwritten:
              res.nontrivial = True
        elif name in ('jsonl_w', 'jsonl_a'):
          recs = [op.get('v')] + [i for i in range(n)]
          ensure_dir()
          if name == 'jsonl_a' and not (p in model and model[p][0] == 'jsonl'):
            continue
          with pg.open_jsonl(p, 'w' if name == 'jsonl_w' else 'a') as f:
            for r in recs:
              f.add(values.build(r, True))
          if name == 'jsonl_w':
            if p in model:
              overwritten.add(p)
            model[p] = ('jsonl', list(recs))
          else:
            model[p] = ('jsonl', model[p][1] + list(recs))
        elif name == 'jsonl_r':
          if p in model and model[p][0] == 'jsonl':
            if n % 2:
              # a reader that is never closed explicitly (it stays at the end of the file)
              f = pg.open_jsonl(p, 'r')
              got = [r for r in f]
              unclosed.append(f)
              res.label('unclosed-reader')
            else:
              with pg.open_jsonl(p, 'r') as f:
                got = [r for r in f]
            want = [values.build(r, True) for r in model[p][1]]
            if len(got) != len(want) or any(not pg.eq(a, b) for a, b in zip(got, want)):
              return res.violate('records of %s: %r, written %r' % (short, got, want), law='records-differ', **sig)
            if p in overwritten:
              res.nontrivial = True
        elif name in ('lines_w', 'lines_a'):
          recs = [TEXTS[(op.get('x', 0) + i) % len(TEXTS)].replace('\n', ' ') for i in range(n + 1)]
          ensure_dir()
          if name == 'lines_a' and not (p in model and model[p][0] == 'lines'):
            continue
          with pg.io.open_sequence(p, 'w' if name == 'lines_w' else 'a') as f:
            for r in recs:
              f.add(r)
          if name == 'lines_w':
            if p in model:
              overwritten.add(p)
            model[p] = ('lines', list(recs))
          else:
            model[p] = ('lines', model[p][1] + list(recs))
        elif name == 'lines_r':
          if p in model and model[p][0] == 'lines':
            with pg.io.open_sequence(p, 'r') as f:
              got = [r for r in f]
            if got != model[p][1]:
              return res.violate('raw records of %s: %r, written %r' % (short, got, model[p][1]), law='records-differ', **sig)
        elif name == 'writefile':
          # (raw text files follow the interpreter's text mode: a lone '\r' is read back as '\n', as with open())
          text = TEXTS[op.get('x', 0) % len(TEXTS)].replace('\r', ' ')
          ensure_dir()
          pg.io.writefile(p, text)
          if p in model:
            overwritten.add(p)
          model[p] = ('text', text)
        elif name == 'readfile':
          if p in model and model[p][0] == 'text':
            got = pg.io.readfile(p)
            if got != model[p][1]:
              return res.violate('readfile(%s) = %r, last written %r' % (short, got, model[p][1]), law='read-differs', **sig)
            if p in overwritten:
              res.nontrivial = True
        elif name == 'rm':
          if p in model:
            pg.io.rm(p)
            del model[p]
            overwritten.discard(p)
        elif name == 'mkdirs':
          ensure_dir()
        elif name == 'listdir':
          d = os.path.dirname(p)
          if any(os.path.dirname(q) == d for q in model):
            got = sorted(pg.io.listdir(d + '/' if fs == 'mem' else d))
            want = sorted({os.path.basename(q) for q in model if os.path.dirname(q) == d})
            if not set(want) <= set(got):
              return res.violate('listdir(%s) = %r misses files %r' % (d if fs == 'mem' else os.path.relpath(d, tmp), got, want),
                                 law='listdir-misses', **sig)
        elif name == 'exists':
          if pg.io.path_exists(p) != (p in model):
            return res.violate('path_exists(%s) is %r, model says %r' % (short, pg.io.path_exists(p), p in model),
                               law='exists-differs', **sig)
      except core.InvalidCase:
        raise
      except RecursionError:
        raise
      except Exception as e:   # pylint: disable=broad-except
        return res.violate('%s on %s raised %r (model: %r)' % (name, short, e, model.get(p)), law='io-raises',
                           exc=type(e).__name__, **sig)
    # final read-back of every path
    for p, (kind, content) in model.items():
      short = p if fs == 'mem' else os.path.relpath(p, tmp)
      try:
        if kind == 'json':
          got = pg.load(p)
          want = values.build(content, True)
          ok = pg.eq(got, want)
        elif kind == 'text':
          got, want = pg.io.readfile(p), content
          ok = got == want
        elif kind == 'jsonl':
          with pg.open_jsonl(p, 'r') as f:
            got = [r for r in f]
          want = [values.build(r, True) for r in content]
          ok = len(got) == len(want) and all(pg.eq(a, b) for a, b in zip(got, want))
        else:
          with pg.io.open_sequence(p, 'r') as f:
            got = [r for r in f]
          want = content
          ok = got == want
      except Exception as e:   # pylint: disable=broad-except
        return res.violate('final read of %s raised %r' % (short, e), law='io-raises', op='final', fs=fs,
                           **(_marker_sig(_marker_kind(content)) if kind in ('json', 'jsonl') else {}),
                           exc=type(e).__name__)
      if not ok:
        return res.violate('final read of %s: %r, expected %r' % (short, got, want), law='final-differs', op='final',
                           fs=fs)
  finally:
    if tmp:
      shutil.rmtree(tmp, ignore_errors=True)
    else:
      _mem_cleanup()
  return res


def execute(case):
  res = core.Result()
  if not isinstance(case, dict):
    raise core.InvalidCase(case)
  kind = case.get('kind')
  res.label('kind:%s' % kind)
  if kind == 'value':
    specs._CLASS_CACHE.clear()   # pylint: disable=protected-access
    return _value_case(case, res)
  if kind == 'files':
    return _files_case(case, res)
  raise core.InvalidCase(case)
