"""C14 — evolution operators are closed over valid DNA and never corrupt their inputs."""
import math
import random

import pyglove as pg
from hypothesis import strategies as st
from pyglove.ext import evolution as ev

from pgverif import core
from pgverif.gen import genospec
from pgverif.props import c12

ID = 'C14'
RULE = ('a DNASpec shape (all manyof modes, conditionals, floats), a population of 1-8 valid DNAs with single- or '
        'multi-objective fitness, a seed and an operator expression of depth <=3 generated from a typed grammar over '
        'mutators (Uniform, Swap), recombinators (Uniform, Sample, Average, WeightedAverage, KPoint, Segmented, '
        'PartiallyMapped, Order, Cycle), selectors (Random, Sample, Proportional, Top, Bottom, First, Last with '
        'int/float/None n, replacement, cluster) and the composition operators (>>, |, &, +, -, ^, *, **, [], ~, '
        'if_true/if_false, for_each, flatten, with_prob/Choice, until_change, Conditional). Every output DNA is valid, '
        'a member of the reference set when finite, aligned with its spec; selector-only expressions return input '
        'members by identity in the documented number; inputs (DNAs and population list) are unchanged; two fresh '
        'instances of the seeded expression give equal outputs. Non-trivial: spec with a multi-choice or conditional '
        'and an expression containing a mutator or recombinator')
ASSUMPTIONS = [
    'every stochastic leaf operator is seeded (unseeded defaults are not "seeded operators")',
    'recombinators always receive the two parents they document (First(2) >> recombinator)',
    'an operator raising on valid parents is a violation (closure), except ValueError/IndexError of selectors on an empty population',
]
BUDGET = {'quick': 900, 'thorough': 40000}

SELECTORS = ['sel.Random', 'sel.Sample', 'sel.Proportional', 'sel.Top', 'sel.Bottom', 'sel.First', 'sel.Last']
MUTATORS = ['m.Uniform', 'm.Swap']
RECOMBS = ['r.Uniform', 'r.Sample', 'r.Average', 'r.WeightedAverage', 'r.KPoint', 'r.Segmented', 'r.PMX', 'r.Order', 'r.Cycle']


def _expr(depth):
  n_val = st.sampled_from([None, 0, 1, 2, 3, 5, 0.0, 0.5, 1.0])
  sel = st.fixed_dictionaries({'op': st.sampled_from(SELECTORS), 'n': n_val, 'repl': st.booleans(),
                               'cluster': st.booleans(), 's': st.integers(0, 999), 'w': st.integers(0, 3)})
  # `where`: restrict a point-wise recombinator to the first or to the last applicable decision point (the `where` of
  # a mutator is a predicate over DNA nodes and may legitimately leave nothing to mutate: not generated)
  wh = st.sampled_from([None, None, None, 'first', 'last'])
  mut = st.fixed_dictionaries({'op': st.sampled_from(MUTATORS), 's': st.integers(0, 999), 'where': wh})
  rec = st.fixed_dictionaries({'op': st.sampled_from(RECOMBS), 's': st.integers(0, 999), 'k': st.integers(1, 3), 'where': wh})
  leaf = st.one_of(sel, sel, mut, rec, st.just({'op': 'identity'}))

  def ext(c):
    two = st.tuples(c, c)
    return st.one_of(
        st.builds(lambda op, ab: {'op': op, 'a': ab[0], 'b': ab[1]},
                  st.sampled_from(['>>', '>>', '|', '&', '+', '-', '^']), two),
        st.builds(lambda a, k: {'op': '*', 'a': a, 'k': k}, c, st.integers(0, 3)),
        st.builds(lambda a, k: {'op': '**', 'a': a, 'k': k}, c, st.integers(0, 3)),
        st.builds(lambda a, i, j: {'op': 'slice', 'a': a, 'i': i, 'j': j}, c, st.integers(-2, 3), st.one_of(st.none(), st.integers(-2, 4))),
        st.builds(lambda a, o: {'op': o, 'a': a}, c, st.sampled_from(['~', 'neg', 'flatten', 'until_change'])),
        st.builds(lambda a, o, p: {'op': o, 'a': a, 'p': p}, c, st.sampled_from(['if_true', 'if_false']), st.booleans()),
        st.builds(lambda a, p, s: {'op': 'with_prob', 'a': a, 'p': p, 's': s}, c, st.sampled_from([0.0, 0.5, 1.0]), st.integers(0, 99)),
        st.builds(lambda a, b: {'op': 'for_each', 'a': a, 'b': b}, c, st.one_of(mut, st.just({'op': 'identity'}))),
        st.builds(lambda ab, p: {'op': 'conditional', 'a': ab[0], 'b': ab[1], 'p': p}, two, st.booleans()),
        st.builds(lambda ab, s: {'op': 'choice', 'a': ab[0], 'b': ab[1], 's': s}, two, st.integers(0, 99)),
    )
  # half of the expressions are a single operator: every operator class x parameterisation gets dense coverage
  return st.one_of(leaf, st.recursive(leaf, ext, max_leaves=depth))


def strategy(tier):
  return st.fixed_dictionaries({
      'shape': genospec.shape_strategy(max_depth=2, floats=True, names=False, max_cands=4, max_k=3, max_elems=2),
      'pop': st.lists(st.integers(0, 10 ** 6), min_size=1, max_size=8),
      'fit': st.lists(st.one_of(st.integers(-3, 3), st.sampled_from([0.5, 1.5])), min_size=8, max_size=8),
      'multi_obj': st.booleans(),
      'expr': _expr(5),
  })


EXHAUSTIVE_DOMAINS = {
    'operator_grid': 'every mutator and recombinator class (k=1..3 for KPoint, where in {none, first, last} for the point-wise ones) x '
                     'seeds 0..9 (thorough 0..39) x 2 parent sets on 3 fixed spaces: a sorted non-distinct 3-of-4 multi-choice, a '
                     'distinct 2-of-3 multi-choice over sub-spaces with a choice and a float, a conditional choice with floats',
    'selector_counts': 'every selector x n in {None, 0..8, 0.0, 0.25, 0.5, 1.0} x population size 1..8 x 4 weight patterns x replacement/cluster flag on a fixed small spec',
}


def exhaustive(tier):
  shape = {'t': 'space', 'e': [{'t': 'choices', 'k': 1, 'c': [{'t': 'space', 'e': []}] * 4, 'distinct': True, 'sorted': False},
                               {'t': 'float', 'lo': 0, 'hi': 1}]}

  def gen():
    for op in SELECTORS:
      for n in [None, 0, 1, 2, 3, 4, 5, 6, 7, 8, 0.0, 0.25, 0.5, 1.0]:
        for size in range(1, 9):
          for w in range(4):
            if op not in ('sel.Sample', 'sel.Proportional') and w:
              continue
            for flag in (False, True):
              if op in ('sel.Sample', 'sel.Proportional', 'sel.First', 'sel.Last') and flag:
                continue
              yield {'shape': shape, 'pop': list(range(1, size + 1)), 'fit': [1, 3, 2, 3, 0, 1.5, -1, 2], 'multi_obj': False,
                     'expr': {'op': op, 'n': n, 'repl': flag, 'cluster': flag, 's': 7, 'w': w}}
  def operator_grid():
    # every mutator / recombinator x seeds on three fixed conditional spaces, so that what a seeded operator does on
    # constrained multi-choices and nested sub-spaces does not depend on what the random part happens to draw
    const = {'t': 'space', 'e': []}
    inner = {'t': 'space', 'e': [{'t': 'choices', 'k': 1, 'c': [const, const, const], 'distinct': True, 'sorted': False},
                                 {'t': 'float', 'lo': 0.1, 'hi': 0.9}]}
    shapes = [
        {'t': 'space', 'e': [{'t': 'choices', 'k': 3, 'c': [const, const, const, const], 'distinct': False, 'sorted': True},
                             {'t': 'choices', 'k': 1, 'c': [const, const], 'distinct': True, 'sorted': False}]},
        {'t': 'space', 'e': [{'t': 'choices', 'k': 2, 'c': [inner, inner, inner], 'distinct': True, 'sorted': False}]},
        {'t': 'space', 'e': [{'t': 'choices', 'k': 1, 'c': [inner, const, {'t': 'space', 'e': [{'t': 'float', 'lo': 1.0, 'hi': 2.0}]}],
                              'distinct': True, 'sorted': False}, {'t': 'float', 'lo': 0.0, 'hi': 0.3}]},
    ]
    for sh in shapes:
      for op in MUTATORS + RECOMBS:
        for sd in range(10 if tier == 'quick' else 40):
          for pop in ([1, 2, 3], [11, 5, 9, 4]):
            for wh in ((None, 'first', 'last') if op in ('r.Uniform', 'r.Sample', 'r.Average', 'r.WeightedAverage') else (None,)):
              for k in ((1, 2, 3) if op == 'r.KPoint' else (1,)):
                yield {'shape': sh, 'pop': pop, 'fit': [1, 3, 2, 0.5], 'multi_obj': False,
                       'expr': {'op': op, 's': sd, 'k': k, 'where': wh}}
  return {'selector_counts': gen(), 'operator_grid': operator_grid()}


def build_op(e, has_two):
  """Builds the operation of an expression descriptor."""
  if not isinstance(e, dict) or not isinstance(e.get('op'), str):
    raise core.InvalidCase(e)
  op = e['op']
  s = e.get('s', 0)
  if isinstance(s, bool) or not isinstance(s, int):
    raise core.InvalidCase(e)
  if op == 'identity':
    return ev.Identity()
  if op in SELECTORS:
    n = e.get('n')
    if isinstance(n, bool) or not (n is None or isinstance(n, (int, float))) or (n is not None and n < 0) or (
        isinstance(n, float) and n > 1.0):
      raise core.InvalidCase(e)
    S = ev.selectors
    wk = e.get('w', 0)
    if isinstance(wk, bool) or not isinstance(wk, int):
      raise core.InvalidCase(e)
    patterns = [lambda i: 1.0 + (i % 3), lambda i: 1.0, lambda i: 0.2 if i == 0 else 1.0, lambda i: 0.2 if i < 2 else 1.0]
    w = lambda xs: [patterns[wk % 4](i) for i in range(len(xs))]   # pylint: disable=unnecessary-lambda-assignment
    if op == 'sel.Random':
      return S.Random(n, replacement=bool(e.get('repl')), seed=s)
    if op == 'sel.Sample':
      return S.Sample(n, weights=w, seed=s)
    if op == 'sel.Proportional':
      return S.Proportional(n, weights=w)
    # children produced by mutators / recombinators carry no fitness: an explicit key is used then
    key = (lambda d: repr(d.to_numbers())) if e.get('_no_fitness') else None
    if op == 'sel.Top':
      return S.Top(n, key=key, cluster=bool(e.get('cluster')))
    if op == 'sel.Bottom':
      return S.Bottom(n, key=key, cluster=bool(e.get('cluster')))
    if op == 'sel.First':
      return S.First(n)
    return S.Last(n)
  wkw = {}
  if e.get('where') in ('first', 'last') and op in ('r.Uniform', 'r.Sample', 'r.Average', 'r.WeightedAverage'):
    wkw['where'] = (lambda xs: xs[:1]) if e['where'] == 'first' else (lambda xs: xs[-1:])
  elif e.get('where') is not None and e.get('where') not in ('first', 'last'):
    raise core.InvalidCase(e)
  if op in MUTATORS:
    return ev.mutators.Uniform(seed=s) if op == 'm.Uniform' else ev.mutators.Swap(seed=s)
  if op in RECOMBS:
    R = ev.recombinators
    k = e.get('k', 1)
    if isinstance(k, bool) or not isinstance(k, int) or k < 1:
      raise core.InvalidCase(e)
    r = {
        'r.Uniform': lambda: R.Uniform(seed=s, **wkw),
        'r.Sample': lambda: R.Sample(weights=lambda xs: [1.0] * len(xs), seed=s, **wkw),
        'r.Average': lambda: R.Average(**wkw),
        'r.WeightedAverage': lambda: R.WeightedAverage(weights=lambda xs: [1.0 + i for i in range(len(xs))], **wkw),
        'r.KPoint': lambda: R.KPoint(k, seed=s),
        'r.Segmented': lambda: R.Segmented(lambda xs: [len(xs) // 2] if len(xs) > 1 else []),
        'r.PMX': lambda: R.PartiallyMapped(seed=s),
        'r.Order': lambda: R.Order(seed=s),
        'r.Cycle': lambda: R.Cycle(seed=s),
    }[op]()
    if not has_two:
      return ev.Identity()
    return ev.selectors.First(2) >> r
  a = build_op(e.get('a'), has_two)
  if op in ('>>', '|', '&', '+', '-', '^'):
    b = build_op(e.get('b'), has_two)
    return {'>>': lambda: a >> b, '|': lambda: a | b, '&': lambda: a & b, '+': lambda: a + b,
            '-': lambda: a - b, '^': lambda: a ^ b}[op]()
  if op in ('*', '**'):
    k = e.get('k', 1)
    if isinstance(k, bool) or not isinstance(k, int) or not 0 <= k <= 4:
      raise core.InvalidCase(e)
    return a * k if op == '*' else a ** k
  if op == 'slice':
    i, j = e.get('i'), e.get('j')
    if any(isinstance(x, bool) or not (x is None or isinstance(x, int)) for x in (i, j)):
      raise core.InvalidCase(e)
    return a[i:j]
  if op == '~':
    return ~a
  if op == 'neg':
    return -a
  if op == 'flatten':
    return a.flatten()
  if op == 'until_change':
    return a.until_change(max_attempts=3)
  if op in ('if_true', 'if_false'):
    p = bool(e.get('p'))
    return a.if_true(lambda xs: p) if op == 'if_true' else a.if_false(lambda xs: p)
  if op == 'with_prob':
    p = e.get('p', 0.5)
    if isinstance(p, bool) or not isinstance(p, (int, float)) or not 0 <= p <= 1:
      raise core.InvalidCase(e)
    return a.with_prob(float(p), seed=s)
  if op == 'for_each':
    # for_each applies the operation to every *element list* of a nested population
    b = build_op(e.get('b'), has_two)
    group = ev.Lambda(lambda xs: [xs[i:i + 2] for i in range(0, len(xs), 2)])
    return (a >> group).for_each(b).flatten()
  if op == 'conditional':
    b = build_op(e.get('b'), has_two)
    p = bool(e.get('p'))
    return ev.Conditional(lambda xs: p, a, b)
  if op == 'choice':
    b = build_op(e.get('b'), has_two)
    return ev.Choice([(a, 0.5), (b, 0.5)], seed=s)
  raise core.InvalidCase(e)


def _walk(e):
  yield e
  for k in ('a', 'b'):
    if isinstance(e.get(k), dict):
      yield from _walk(e[k])


def _selector_only(e):
  """Expression whose outputs must be members of the input (selectors, identity and set/ordering combinators)."""
  return all(x['op'] in SELECTORS or x['op'] in ('identity', '>>', '|', '&', '+', '-', '^', '*', '**', 'slice', '~', 'neg',
                                                   'if_true', 'if_false', 'with_prob', 'conditional', 'choice', 'until_change')
             for x in _walk(e))


def _can_empty(e):
  """May some intermediate population of the expression be empty (selectors then raise by documentation)?"""
  for x in _walk(e):
    if x['op'] in ('slice', '-', '&', '^', '~', 'neg', 'if_true', 'if_false', 'with_prob'):
      return True
    if x['op'] in ('*', '**') and x.get('k') == 0:
      return True
    if x['op'] in SELECTORS and x.get('n') in (0, 0.0):
      return True
  return False


def _expected_count(e, n_in):
  """Documented output count of a single selector leaf (None if not specified by a simple rule)."""
  if e['op'] not in SELECTORS:
    return None
  n = e.get('n')
  if isinstance(n, float):
    n = math.ceil(n * n_in)
  elif n is None:
    n = n_in
  op = e['op']
  if op == 'sel.Random':
    return n if (e.get('repl') and n_in > 0) else (min(n, n_in) if not e.get('repl') else None)
  if op == 'sel.Sample':
    return n if n_in > 0 else None
  if op == 'sel.Proportional':
    return n if n_in > 0 else None
  if op in ('sel.Top', 'sel.Bottom'):
    return None if e.get('cluster') else min(n, n_in)
  return min(n, n_in)


def execute(case):
  res = core.Result()
  if not isinstance(case, dict) or not isinstance(case.get('shape'), dict) or not isinstance(case.get('expr'), dict):
    raise core.InvalidCase(case)
  shape = case['shape']
  genospec.validate(shape)
  if shape['t'] != 'space' or not shape['e']:
    raise core.InvalidCase(case)
  try:
    spec = genospec.build(shape)
  except Exception as e:   # pylint: disable=broad-except
    raise core.InvalidCase('spec does not build: %r' % e)
  seeds = case.get('pop', [1])
  fit = case.get('fit', [0] * 8)
  if not isinstance(seeds, list) or not seeds or not isinstance(fit, list) or len(fit) < 1:
    raise core.InvalidCase(case)

  def make_pop():
    pop = []
    for i, sd in enumerate(seeds[:8]):
      if isinstance(sd, bool) or not isinstance(sd, int):
        raise core.InvalidCase(case)
      d = pg.random_dna(spec, random.Random(sd))
      f = fit[i % len(fit)]
      if isinstance(f, bool) or not isinstance(f, (int, float)):
        raise core.InvalidCase(case)
      ev.set_fitness(d, (float(f), float(-f)) if case.get('multi_obj') else float(f))
      pop.append(d)
    return pop
  pop = make_pop()
  expr = case['expr']
  ops = [x['op'] for x in _walk(expr)]
  has_dnaop = any(o in MUTATORS or o in RECOMBS for o in ops)
  if case.get('multi_obj') and any(o in ('sel.Top', 'sel.Bottom', 'sel.Proportional') for o in ops):
    pass

  def has(pred, s=shape):
    if s['t'] == 'space':
      return any(has(pred, e) for e in s['e'])
    if pred(s):
      return True
    return s['t'] == 'choices' and any(has(pred, c) for c in s['c'])
  interesting = has(lambda x: x['t'] == 'choices' and (x['k'] >= 2 or any(c['e'] for c in x['c'])))
  if interesting and has_dnaop:
    res.nontrivial = True
  for o in set(ops):
    res.label('op:' + o)
  sig = {'root': expr['op']}
  leafs = sorted({o for o in ops if o in MUTATORS or o in RECOMBS or o in SELECTORS})
  if len(leafs) == 1:
    sig['leaf'] = leafs[0]
  before_json = [pg.to_json_str(p) for p in pop]
  before_ids = [id(p) for p in pop]
  inputs = list(pop)

  if has_dnaop:
    for x in _walk(expr):
      if x['op'] in ('sel.Top', 'sel.Bottom'):
        x['_no_fitness'] = True

  def run(population, global_seed=20240):
    # every operator of the expression carries its own seed: the state of the process-wide generator is not an input
    random.seed(global_seed)
    op = build_op(expr, len(population) >= 2)
    return op(population, step=0)
  what = 'expr=%r parents=%r shape=%r' % (expr, [p.to_numbers() for p in pop], shape)
  try:
    out = run(inputs)
  except core.InvalidCase:
    raise
  except RecursionError:
    raise
  except Exception as e:   # pylint: disable=broad-except
    if isinstance(e, (IndexError, ValueError)) and _can_empty(expr):
      res.label('empty-intermediate-population')
      return res
    extra = {}
    if any(x.get('where') for x in _walk(expr) if x['op'] in RECOMBS):
      extra['where'] = '1'
    if 'is not found in the dictionary' in str(e):
      extra['msg'] = 'decision-not-found'
    return res.violate('operator raised %r on valid parents; %s' % (e, what), law='operator-raises',
                       exc=type(e).__name__, **extra, **sig)
  # inputs unchanged
  if len(inputs) != len(pop) or any(a is not b for a, b in zip(inputs, pop)):
    return res.violate('the population list passed in was modified (len %d -> %d); %s' % (len(pop), len(inputs), what),
                       law='population-list-modified', **sig)
  after_json = [pg.to_json_str(p) for p in pop]
  if after_json != before_json or [id(p) for p in pop] != before_ids:
    return res.violate('a parent DNA was modified; %s' % what, law='parent-modified', **sig)
  if not isinstance(out, list):
    return res.violate('operator returned %r' % type(out).__name__, law='output-type', **sig)
  flat = []

  def flatten(x):
    if isinstance(x, list):
      for y in x:
        flatten(y)
    else:
      flat.append(x)
  flatten(out)
  finite = genospec.is_finite(shape) and genospec.size(shape, 300) <= 300
  refset = set(genospec.members(shape)) if finite else None
  for c in flat:
    if not isinstance(c, pg.DNA):
      return res.violate('output element %r is not a DNA; %s' % (c, what), law='output-type', **sig)
    try:
      spec.validate(c)
    except Exception as e:   # pylint: disable=broad-except
      return res.violate('output DNA %r is invalid: %r; %s' % (c.to_numbers(), e, what), law='invalid-child', **sig)
    if refset is not None and tuple(c.to_numbers()) not in refset:
      return res.violate('output DNA %r is not a member of the space; %s' % (c.to_numbers(), what), law='child-not-member', **sig)
    if c.spec is None:
      return res.violate('output DNA %r is not bound to the spec; %s' % (c.to_numbers(), what), law='child-unbound', **sig)
    rebuilt = pg.DNA.from_numbers(c.to_numbers(), spec)
    v1, v2 = c12._views(c), c12._views(rebuilt)   # pylint: disable=protected-access
    if v1 != v2:
      bad = [k for k in v1 if v1[k] != v2[k]][0]
      return res.violate('output DNA %r is misaligned: to_dict%r = %r, rebuilt gives %r; %s' % (
          c.to_numbers(), bad, v1[bad], v2[bad], what), law='child-misaligned', **sig)
  if _selector_only(expr):
    ids = {id(p) for p in pop}
    for c in flat:
      if id(c) not in ids:
        return res.violate('selector expression returned a DNA that is not an input member (by identity); %s' % what,
                           law='selector-not-member', **sig)
    want = _expected_count(expr, len(pop))
    if want is not None and len(out) != want:
      return res.violate('selector returned %d items, documented %d; %s' % (len(out), want, what),
                         law='selector-count', **sig)
  # determinism of the seeded expression
  pop2 = make_pop()
  try:
    out2 = run(list(pop2), global_seed=977)
  except Exception as e:   # pylint: disable=broad-except
    return res.violate('second run of the same seeded expression raised %r; %s' % (e, what), law='nondeterministic', how='raises', **sig)
  flat1 = [tuple(c.to_numbers()) for c in flat]
  flat.clear()
  flatten(out2)
  flat2 = [tuple(c.to_numbers()) for c in flat]
  if flat1 != flat2:
    return res.violate('two fresh instances of the seeded expression gave %r and %r; %s' % (flat1[:4], flat2[:4], what),
                       law='nondeterministic', how='differs', **sig)
  return res
