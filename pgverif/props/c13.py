"""C13 — hyper values: decode and encode are mutually inverse and side-effect free."""
import itertools
import json
import random

import pyglove as pg
from hypothesis import strategies as st

from pgverif import core
from pgverif.gen import classes

ID = 'C13'
RULE = ('an object template nesting oneof / manyof (every distinct x sorted mode) / floatv placeholders inside dicts, '
        'lists, untyped objects and typed object fields (placeholders bound to value specs), with conditional '
        'sub-templates and optional `where` filters; all DNAs for spaces <=40, else enumerated prefix + random. '
        'Decode is deterministic (or only filtered-out placeholders remain), equals a 20-line reference substitution, '
        'is accepted by the bound spec, encode(decode(dna)) == dna (candidates are distinguishable by construction), '
        'template JSON unchanged, two decodes share no symbolic node, pg.iter count == space size and pairwise '
        'different, materialize with the dict view agrees. Non-trivial: a conditional placeholder or a manyof with k>=2')
ASSUMPTIONS = [
    'constants are unique strings / distinct ints and sibling float placeholders have disjoint ranges, so encode is invertible',
    'custom placeholders are one user class (comma separated ints, strict encode); evolvable placeholders hold one fixed '
    'initial value; encode is not compared when an evolvable (whose encode accepts every value) is a candidate',
]
BUDGET = {'quick': 1600, 'thorough': 50000}

KINDS = ['oneof', 'manyof', 'float']
WHERE = (None, 'oneof', 'manyof', 'float', 'custom', 'evolve', 'all', 'nofloat')


class IntSeq(pg.hyper.CustomHyper):
  """A user-defined placeholder: comma separated integers."""

  # `hints` holds an offset that makes the values of sibling placeholders disjoint (distinguishable candidates)

  def custom_decode(self, dna):
    return [int(x) + 100 * self.hints for x in dna.value.split(',')]

  def custom_encode(self, value):
    lo = 100 * self.hints
    if not isinstance(value, list) or not value or any(
        isinstance(x, bool) or not isinstance(x, int) or not lo <= x < lo + 100 for x in value):
      raise ValueError('not a list of ints of this placeholder: %r' % (value,))
    return pg.DNA(','.join(str(x - lo) for x in value))

  def next_dna(self, dna=None):
    if dna is None:
      return pg.DNA('0')
    n = len(dna.value.split(','))
    if n == 3:
      return None
    return pg.DNA(','.join(str(i) for i in range(n + 1)))

  def random_dna(self, random_generator=None, previous_dna=None):
    r = random_generator or random
    return pg.DNA(','.join(str(r.randint(0, 9)) for _ in range(r.randint(1, 3))))


class PSub(classes.P):
  pass


class PSubSub(PSub):
  pass


classes.CLASSES.setdefault('PSub', PSub)
classes.CLASSES.setdefault('PSubSub', PSubSub)


def evolve_transform(location, value, parent):
  del location, parent
  return value + 1 if isinstance(value, int) and not isinstance(value, bool) else value


def selected(h, where):
  """Does the filter `where` select a placeholder of kind h?"""
  if where in (None, 'all'):
    return True
  if where == 'nofloat':
    return h != 'float'
  return h == where


def strategy(tier):
  const = st.just('c')

  def ext(c):
    cands = st.lists(c, min_size=1, max_size=3)
    return st.one_of(
        cands.map(lambda v: {'h': 'oneof', 'c': v}),
        st.builds(lambda k, v, d, s: {'h': 'manyof', 'k': min(k, len(v)) if d else k, 'c': v, 'distinct': d, 'sorted': s},
                  st.integers(1, 3), cands, st.booleans(), st.booleans()),
        st.just({'h': 'float'}),
        st.sampled_from([{'h': 'float'}, {'h': 'custom'}, {'h': 'custom'}, {'h': 'evolve'}]),
        st.builds(lambda h, near, n, k: {'h': h, 'near': near, 'n': n, 'k': k, 'distinct': True, 'sorted': False},
                  st.sampled_from(['oneof', 'manyof']), st.sampled_from(['lists', 'dicts', 'nested', 'classes']), st.integers(2, 3), st.integers(1, 2)),
        st.lists(c, min_size=1, max_size=3).map(lambda v: {'L': v}),
        st.lists(st.tuples(st.sampled_from(['k', 'm', 'a.b', 0]), c), min_size=1, max_size=3,
                 unique_by=lambda kv: str(kv[0])).map(lambda kvs: {'D': [list(kv) for kv in kvs]}),
        st.tuples(c, c).map(lambda t: {'O': 'P', 'a': {'x': t[0], 'y': t[1]}}),
        st.builds(lambda i, l, f, a: {'O': 'HT', 'a': {'i': i, 'l': l, 'f': f, 'a': a}},
                  st.sampled_from([None, {'h': 'oneof', 'ints': [1, 2, 3]}, {'h': 'oneof', 'ints': [4, 5]}]),
                  st.sampled_from([None, {'h': 'manyof', 'k': 2, 'ints': [1, 2, 3], 'distinct': True, 'sorted': False},
                                   {'h': 'manyof', 'k': 2, 'ints': [1, 2, 3], 'distinct': False, 'sorted': True}]),
                  st.sampled_from([None, {'h': 'float'}, {'h': 'float'}, {'h': 'float', 'lo': -1.0, 'hi': 1.0}, {'h': 'float', 'lo': 50.0, 'hi': 150.0},
                                   # int literals on a float field: the field's spec converts the decoded value
                                   {'h': 'oneof', 'ints': [1, 2, 3]}, {'h': 'manyof', 'k': 1, 'ints': [4, 5], 'distinct': True, 'sorted': False}][:6]), c),
    )
  tmpl = st.recursive(const, ext, max_leaves=7)
  return st.fixed_dictionaries({
      'tmpl': st.one_of(tmpl.map(lambda t: {'L': [t]}), tmpl.map(lambda t: {'D': [['r', t]]})),
      'where': st.sampled_from([None, None, None, None, 'oneof', 'manyof', 'float', 'custom', 'evolve', 'all', 'nofloat', 'nofloat']),
      'seeds': st.lists(st.integers(0, 10 ** 6), min_size=1, max_size=3),
      # hand the template over as a plain dict / list instead of a pg.Dict / pg.List
      'plain_root': st.sampled_from([False, False, False, True]),
  })


def annotate(d, ctx=None):
  """Gives every constant a unique name and every float placeholder its own range (by position)."""
  ctx = ctx if ctx is not None else {'n': 0, 'f': 0}
  if d == 'c' or isinstance(d, str):
    ctx['n'] += 1
    return {'const': 'c%d' % ctx['n']}
  if d is None:
    return None
  if not isinstance(d, dict):
    raise core.InvalidCase(d)
  if 'h' in d:
    h = d['h']
    if h == 'custom':
      ctx['n'] += 1
      return {'h': h, 'off': ctx['n']}
    if h == 'evolve':
      return {'h': h}
    if h == 'float':
      if 'lo' in d:
        lo, hi = d.get('lo'), d.get('hi')
        if any(isinstance(x, bool) or not isinstance(x, (int, float)) for x in (lo, hi)) or not lo < hi:
          raise core.InvalidCase(d)
        return {'h': 'float', 'lo': float(lo), 'hi': float(hi), 'explicit': True}
      ctx['f'] += 1
      return {'h': 'float', 'lo': 2.0 * ctx['f'], 'hi': 2.0 * ctx['f'] + 1.0}
    if 'near' in d:
      # candidates that are distinguishable but close: prefixes of one list, dicts with nested key sets
      n = d.get('n', 2)
      if isinstance(n, bool) or not isinstance(n, int) or not 2 <= n <= 3 or d['near'] not in ('lists', 'dicts', 'nested', 'classes'):
        raise core.InvalidCase(d)
      ctx['n'] += 1
      base = ['n%d_%d' % (ctx['n'], i) for i in range(3)]
      if d['near'] == 'lists':
        cands = [{'L': [{'const': x} for x in base[:i + 1]]} for i in range(n)]
      elif d['near'] == 'classes':
        # objects with equal fields of a class, its subclass and the subclass of that (the base class first)
        cands = [{'O': c, 'a': {'x': {'const': base[0]}, 'y': {'const': base[1]}}} for c in ['P', 'PSub', 'PSubSub'][:n]]
      elif d['near'] == 'dicts':
        cands = [{'D': [[k, {'const': base[0]}] for k in ['k', 'm', 'n'][:i + 1]]} for i in range(n)]
      else:
        cands = [{'L': [{'const': base[0]}, {'L': [{'const': x} for x in base[:i + 1]]}]} for i in range(n)]
      out = {'h': h, 'c': cands}
      if h == 'manyof':
        k = d.get('k', 1)
        if isinstance(k, bool) or not isinstance(k, int) or not 1 <= k <= n:
          raise core.InvalidCase(d)
        out.update(k=k, distinct=True, sorted=False)
      return out
    if h not in ('oneof', 'manyof'):
      raise core.InvalidCase(d)
    out = {'h': h}
    if 'ints' in d:
      if not isinstance(d['ints'], list) or not d['ints']:
        raise core.InvalidCase(d)
      out['c'] = [{'const': x} for x in d['ints']]
    else:
      if not isinstance(d.get('c'), list) or not d['c']:
        raise core.InvalidCase(d)
      out['c'] = [annotate(x, ctx) for x in d['c']]
    if h == 'manyof':
      k = d.get('k', 1)
      out['distinct'], out['sorted'] = bool(d.get('distinct', True)), bool(d.get('sorted', False))
      if isinstance(k, bool) or not isinstance(k, int) or k < 1 or (out['distinct'] and k > len(out['c'])):
        raise core.InvalidCase(d)
      out['k'] = k
    return out
  if 'L' in d:
    if not isinstance(d['L'], list) or not d['L']:
      raise core.InvalidCase(d)
    return {'L': [annotate(x, ctx) for x in d['L']]}
  if 'D' in d:
    if not isinstance(d['D'], list) or not d['D']:
      raise core.InvalidCase(d)
    out = []
    for kv in d['D']:
      if not (isinstance(kv, list) and len(kv) == 2 and isinstance(kv[0], (str, int)) and kv[0] != ''
              and not isinstance(kv[0], bool)):
        raise core.InvalidCase(d)
      out.append([kv[0], annotate(kv[1], ctx)])
    return {'D': out}
  if 'O' in d:
    if d['O'] not in ('P', 'HT') or not isinstance(d.get('a'), dict):
      raise core.InvalidCase(d)
    order = ('x', 'y') if d['O'] == 'P' else ('i', 'f', 'l', 's', 'a')     # the schema's field order
    return {'O': d['O'], 'a': {k: annotate(d['a'][k], ctx) for k in order
                               if k in d['a'] and (d['a'][k] is not None or d['O'] != 'HT')}}
  raise core.InvalidCase(d)


def build(a):
  """Template value from an annotated descriptor."""
  if a is None:
    return None
  if 'const' in a:
    return a['const']
  if 'h' in a:
    if a['h'] == 'float':
      return pg.floatv(a['lo'], a['hi'])
    if a['h'] == 'custom':
      return IntSeq(hints=a['off'])
    if a['h'] == 'evolve':
      return pg.evolve(pg.Dict(x=1, y=[2, 3]), evolve_transform)
    cands = [build(x) for x in a['c']]
    if a['h'] == 'oneof':
      return pg.oneof(cands)
    return pg.manyof(a['k'], cands, distinct=a['distinct'], sorted=a['sorted'])
  if 'L' in a:
    return pg.List([build(x) for x in a['L']])
  if 'D' in a:
    return pg.Dict({k: build(v) for k, v in a['D']})
  return classes.CLASSES[a['O']](**{k: build(v) for k, v in a['a'].items()})


def ref_decode(a, nums, where):
  """Reference substitution over (annotated descriptor, flat numbers consumed from the front)."""
  if a is None:
    return None
  if 'const' in a:
    return a['const']
  if 'h' in a:
    h = a['h']
    if not selected(h, where):
      # filtered out: the placeholder stays in place as an ordinary object; selected
      # placeholders nested in its candidates are still decision points (in order)
      for x in a.get('c', []):
        ref_decode(x, nums, where)
      return ('placeholder', h)
    if h == 'float':
      return nums.pop(0)
    if h == 'custom':
      return [int(x) + 100 * a['off'] for x in nums.pop(0).split(',')]
    if h == 'evolve':
      return json.loads(nums.pop(0))
    k = 1 if h == 'oneof' else a['k']
    outs = []
    for _ in range(k):
      i = nums.pop(0)
      outs.append(ref_decode(a['c'][i], nums, where))
    return outs[0] if h == 'oneof' else outs
  if 'L' in a:
    return [ref_decode(x, nums, where) for x in a['L']]
  if 'D' in a:
    return {k: ref_decode(v, nums, where) for k, v in a['D']}
  return ('obj', a['O'], {k: ref_decode(v, nums, where) for k, v in a['a'].items()})


def _bad_binding(d):
  """Does an HT.f field (Float(0..100)) get a float placeholder reaching outside that range?"""
  if isinstance(d, list):
    return any(_bad_binding(x) for x in d)
  if isinstance(d, dict):
    if d.get('O') == 'HT':
      f = d.get('a', {}).get('f')
      if isinstance(f, dict) and 'lo' in f and (f['lo'] < 0.0 or f['hi'] > 100.0):
        return True
    return any(_bad_binding(x) for x in d.values())
  return False


def _evolve_as_candidate(a, inside):
  if not isinstance(a, dict):
    return False
  if 'h' in a:
    if a['h'] == 'evolve' and inside:
      return True
    return any(_evolve_as_candidate(x, True) for x in a.get('c', []))
  subs = a.get('L', []) + [kv[1] for kv in a.get('D', [])] + list(a.get('a', {}).values() if 'O' in a else [])
  return any(_evolve_as_candidate(x, inside) for x in subs)


def _unselected_inside_selected(a, where, inside):
  if not isinstance(a, dict):
    return False
  if 'h' in a:
    sel = selected(a['h'], where)
    if inside and not sel:
      return True
    return any(_unselected_inside_selected(x, where, inside or sel) for x in a.get('c', []))
  subs = a.get('L', []) + [kv[1] for kv in a.get('D', [])] + list(a.get('a', {}).values() if 'O' in a else [])
  return any(_unselected_inside_selected(x, where, inside) for x in subs)


def plain(v):
  if isinstance(v, pg.hyper.HyperPrimitive):
    kind = {'OneOf': 'oneof', 'ManyOf': 'manyof', 'Float': 'float', 'IntSeq': 'custom',
            'Evolvable': 'evolve'}.get(type(v).__name__, type(v).__name__)
    return ('placeholder', kind)
  if isinstance(v, pg.Object):
    name = type(v).__name__
    keys = ('x', 'y') if name in ('P', 'PSub', 'PSubSub') else ('i', 'l', 'f', 'a')
    return ('obj', name, {k: plain(v.sym_getattr(k)) for k in keys})
  if isinstance(v, list):
    return [plain(x) for x in v]
  if isinstance(v, dict):
    return {k: plain(x) for k, x in v.items()}
  return v


def _norm_ref(r, name_defaults=True):
  """Fill HT defaults the template did not set, so that the comparison is shape-only."""
  if isinstance(r, tuple) and r and r[0] == 'obj':
    vals = {k: _norm_ref(v) for k, v in r[2].items()}
    if r[1] == 'HT':
      for k, dv in (('i', 0), ('l', []), ('f', None), ('a', None)):
        vals.setdefault(k, dv)
    return ('obj', r[1], vals)
  if isinstance(r, list):
    return [_norm_ref(x) for x in r]
  if isinstance(r, dict):
    return {k: _norm_ref(v) for k, v in r.items()}
  return r


def _sym_ids(v):
  out = set()

  def walk(x):
    if isinstance(x, pg.Symbolic):
      out.add(id(x))
      for _, y in x.sym_items():
        walk(y)
  walk(v)
  return out


def _features(d):
  multi = cond = False

  def walk(x, inside):
    nonlocal multi, cond
    if isinstance(x, dict):
      if 'h' in x:
        if inside:
          cond = True
        if x['h'] == 'manyof' and x.get('k', 1) >= 2:
          multi = True
        for y in x.get('c', []):
          walk(y, True)
      else:
        for y in x.get('L', []):
          walk(y, inside)
        for kv in x.get('D', []):
          walk(kv[1], inside)
        for y in x.get('a', {}).values():
          walk(y, inside)
  walk(d, False)
  return multi, cond


def execute(case):
  res = core.Result()
  if not isinstance(case, dict) or not isinstance(case.get('tmpl'), dict):
    raise core.InvalidCase(case)
  d = case['tmpl']
  where_kind = case.get('where')
  if where_kind not in WHERE:
    raise core.InvalidCase(case)
  try:
    annot = annotate(d)
    value = build(annot)
  except core.InvalidCase:
    raise
  except (TypeError, ValueError) as e:
    if _bad_binding(d):
      res.label('out-of-range-binding-refused')
      return res
    return res.violate('building template %r raised %r' % (d, e), law='template-construction-raises',
                       exc=type(e).__name__)
  if _bad_binding(d):
    return res.violate('a float placeholder whose range leaves the range of the field it is bound to was accepted: %r' % (value,),
                       law='out-of-range-binding-accepted')
  if pg.is_deterministic(value):
    res.label('constant-template')
    return res
  multi, cond = _features(d)
  if multi or cond:
    res.nontrivial = True
  res.label('where:%s' % where_kind, 'multi' if multi else 'single', 'conditional' if cond else 'flat')
  where_fn = None
  if where_kind is not None:
    if where_kind == 'all':
      where_fn = lambda x: True   # pylint: disable=unnecessary-lambda-assignment
    elif where_kind == 'nofloat':
      where_fn = lambda x: not isinstance(x, pg.hyper.Float)   # pylint: disable=unnecessary-lambda-assignment
    else:
      cls = {'oneof': pg.hyper.OneOf, 'manyof': pg.hyper.ManyOf, 'float': pg.hyper.Float, 'custom': IntSeq,
             'evolve': pg.hyper.Evolvable}[where_kind]
      # OneOf is a subclass of ManyOf: select by exact class
      where_fn = lambda x, cls=cls: type(x) is cls   # pylint: disable=unnecessary-lambda-assignment
  sig = {'where': str(where_kind)}
  if where_kind is not None and _unselected_inside_selected(annot, where_kind, False):
    sig['unselected_inside_selected'] = '1'
    res.label('unselected-inside-selected')
  try:
    tvalue = value
    if case.get('plain_root'):
      tvalue = dict(value.sym_items()) if isinstance(value, pg.Dict) else list(value.sym_values())
      res.label('plain-root')
      sig['plain_root'] = '1'
    t = pg.template(tvalue, where=where_fn)
    spec = t.dna_spec()
  except Exception as e:   # pylint: disable=broad-except
    return res.violate('pg.template / dna_spec raised %r for %r' % (e, value), law='template-raises', exc=type(e).__name__, **sig)
  before = pg.to_json_str(value)
  try:
    size = spec.space_size
  except Exception as e:   # pylint: disable=broad-except
    return res.violate('space_size raised %r' % e, law='template-raises', exc=type(e).__name__, **sig)
  dnas = []
  if size != -1 and size <= 40:
    dnas = list(spec.iter_dna())
    res.label('exhaustive-dnas')
  else:
    if size != -1:
      dnas = list(itertools.islice(spec.iter_dna(), 4))
    for sd in case.get('seeds', [1]):
      dnas.append(pg.random_dna(spec, random.Random(sd)))
  if not dnas and size != 0:
    dnas = [spec.first_dna()]
  # an evolvable's encode accepts every value: as a candidate it is not distinguishable from its siblings
  evolve_candidate = _evolve_as_candidate(annot, False)
  if evolve_candidate:
    res.label('evolvable-candidate')
  if '"custom"' in json.dumps(d) or '"evolve"' in json.dumps(d):
    res.label('custom-placeholder')
  for dna in dnas:
    nums = list(dna.to_numbers())
    what = 'dna=%r template=%r' % (nums, value)
    try:
      out = t.decode(dna)
    except RecursionError:
      raise
    except Exception as e:   # pylint: disable=broad-except
      return res.violate('decode raised %r; %s' % (e, what), law='decode-raises', exc=type(e).__name__, **sig)
    try:
      exp = _norm_ref(ref_decode(annot, list(nums), where_kind))
    except (IndexError, KeyError) as e:
      return res.violate('the flat numbers do not fit the template (%r); %s' % (e, what), law='numbers-do-not-fit', **sig)
    except TypeError as e:
      return res.violate('the flat numbers do not fit the template (%r); %s' % (e, what), law='numbers-do-not-fit', **sig)
    got = plain(out)
    if got != exp:
      return res.violate('decode gives %r, reference substitution gives %r; %s' % (got, exp, what), law='decode-shape', **sig)
    if where_kind in (None, 'all') and not pg.is_deterministic(out):
      return res.violate('decoded value still contains placeholders: %r; %s' % (out, what), law='decode-not-deterministic', **sig)
    if pg.to_json_str(value) != before:
      return res.violate('decode modified the template; %s' % what, law='template-mutated', by='decode', **sig)
    try:
      enc = dna if evolve_candidate else t.encode(out)
    except RecursionError:
      raise
    except Exception as e:   # pylint: disable=broad-except
      return res.violate('encode(decode(dna)) raised %r; %s' % (e, what), law='encode-raises', exc=type(e).__name__, **sig)
    if enc != dna:
      return res.violate('encode(decode(dna)) = %r; %s' % (enc.to_numbers(), what), law='encode-differs', **sig)
    if pg.to_json_str(value) != before:
      return res.violate('encode modified the template; %s' % what, law='template-mutated', by='encode', **sig)
    out2 = t.decode(dna)
    if not pg.eq(out, out2):
      return res.violate('two decodes of the same DNA differ; %s' % what, law='decode-not-repeatable', **sig)
    if where_kind in (None, 'all') and isinstance(out, pg.Symbolic) and (
        _sym_ids(out) & _sym_ids(out2) or _sym_ids(out) & _sym_ids(value)):
      return res.violate('decoded values share symbolic nodes (with each other or the template); %s' % what,
                         law='decode-shares-nodes', **sig)
    if where_kind is None:
      try:
        m = pg.materialize(value, dna.to_dict(value_type='value'), use_literal_values=False)
        if not pg.eq(m, out):
          return res.violate('materialize with the dict view gives %r, decode %r; %s' % (m, out, what),
                             law='materialize-differs', **sig)
      except RecursionError:
        raise
      except Exception as e:   # pylint: disable=broad-except
        return res.violate('materialize with the dict view raised %r; %s' % (e, what), law='materialize-raises',
                           exc=type(e).__name__, **sig)
  if size != -1 and size <= 40 and where_kind is None:
    try:
      vals = list(pg.iter(value))
    except Exception as e:   # pylint: disable=broad-except
      return res.violate('pg.iter raised %r for %r' % (e, value), law='iter-raises', exc=type(e).__name__, **sig)
    if len(vals) != size:
      return res.violate('pg.iter yields %d values, space size is %d; template=%r' % (len(vals), size, value),
                         law='iter-count', **sig)
    for a, b in itertools.combinations(vals, 2):
      if pg.eq(a, b):
        return res.violate('pg.iter yields equal values %r; template=%r' % (a, value), law='iter-duplicate', **sig)
  return res
