"""C08 — write protection: sealed or accessor-protected values cannot be changed."""
import contextlib
import itertools

import pyglove as pg
from hypothesis import strategies as st

from pgverif import core
from pgverif.gen import treeops
from pgverif.gen import values
from pgverif.props import c07

ID = 'C08'
RULE = ('a tree, a protected node, a protection mode (seal(), sealed at construction, as_sealed(True) scope, '
        'accessor_writable=False, allow_writable_accessors(False) scope), a stack of nested scope overrides over '
        '{True, False, None} and one mutating op of the full list/dict/object API attempted at the node or below '
        '(or by rebind from an ancestor); expected permission = a reference of the documented precedence (innermost '
        'scope, None defers to the object flag). Forbidden => WritePermissionError and tree+flags unchanged; allowed => '
        'no WritePermissionError; after removing the protection the same op is no longer refused. Non-trivial: the op '
        'changes state on an unprotected deep clone and the protected node has >=1 symbolic descendant. The product '
        'ops x modes x scope stacks x target level is enumerated exhaustively on 6 fixed tree shapes')
ASSUMPTIONS = [
    'only the innermost enclosing scope counts; None defers to the per-object flag (flags.py)',
    'under disabled accessors only item/attribute assignment and deletion must be refused and rebind must work; '
    'mutators implemented on top of accessors (setdefault, pop, popitem, update, list mutators) are unspecified there',
    'in-place operators are invoked as operator methods (the re-assignment of the holding slot is an accessor write of the parent)',
]
BUDGET = {'quick': 3000, 'thorough': 80000}
EXHAUSTIVE_DOMAINS = {
    'matrix': 'fixed tree shapes x every op (canonical args) x 5 protection modes x scope stacks x target level (node / child / grandchild / rebind from parent)',
}
MODES = ['seal', 'ctor', 'scope_sealed', 'aw_off', 'scope_aw']
ACCESSOR_OPS = {'setitem', 'setslice', 'delitem', 'delslice', 'dsetitem', 'dsetattr', 'ddelitem', 'ddelattr', 'osetattr'}
REBIND_OPS = {'rebind_l', 'rebind_d', 'rebind_o', 'rebind_path', 'rebind_multi', 'rebind_fn'}
UNSPEC_UNDER_AW = {'setdefault', 'dpop', 'pop', 'remove', 'popitem'}
OPS = treeops.LIST_OPS + treeops.DICT_OPS + treeops.OBJ_OPS + ['rebind_path', 'rebind_multi', 'rebind_fn']

SHAPES = [
    {'$d': [['k', [1, {'$d': [['m', 2]]}]], ['n', {'$d': [['k', [3]]]}]]},
    [[1, 2, [3]], {'$d': [['k', {'$o': 'W', 'a': {'a': [1], 'b': 2}}]]}],
    {'$o': 'W', 'a': {'a': {'$d': [['k', [1, 2]]]}, 'b': [{'$d': [['m', 1]]}]}},
    {'$d': [['k', {'$o': 'P', 'a': {'x': [1, [2]], 'y': {'$d': [['n', 1]]}}}]]},
    [{'$d': [['k', 1], ['m', [2, 3]]]}, [4, {'$d': [['n', [5]]]}]],
    {'$o': 'W', 'a': {'a': {'$o': 'W', 'a': {'a': [1, 2], 'b': {'$d': [['k', 1]]}}}, 'b': 3}},
    # typed containers (their mutators re-apply the schema internally)
    {'$d': [['k', {'$o': 'Typed', 'a': {'d': {'$d': [['k', 1], ['u1', 'a']]}, 'l': [1, 2], 'i': 3}}], ['n', [1]]]},
]


def strategy(tier):
  scope = st.tuples(st.sampled_from(['sealed', 'aw']), st.sampled_from([True, False, None])).map(list)
  return st.fixed_dictionaries({
      'root': values.container_desc(max_leaves=10),
      'mode': st.sampled_from(MODES),
      'p': st.integers(0, 30),
      'scopes': st.lists(scope, max_size=3),
      'op': treeops.op_strategy(ops=OPS, value=values.vdesc(max_leaves=3, objects=False)),
  })


def exhaustive(tier):
  vals = [True, False, None]
  if tier == 'quick':
    stacks = [[]] + [[[k, v]] for k in ('sealed', 'aw') for v in vals] + \
        [[['sealed', a], ['sealed', b]] for a in vals for b in vals] + \
        [[['aw', a], ['aw', b]] for a in vals for b in vals] + [[['sealed', None], ['aw', False]], [['aw', None], ['sealed', True]]]
  else:
    one = [[]] + [[['sealed', a]] for a in vals] + [[['sealed', a], ['sealed', b]] for a in vals for b in vals]
    two = [[]] + [[['aw', a]] for a in vals] + [[['aw', a], ['aw', b]] for a in vals for b in vals]
    stacks = [x + y for x in one for y in two]

  def gen():
    for si, shape in enumerate(SHAPES):
      for name in OPS:
        for mode in MODES:
          for stack in stacks:
            for p in (0, 1, 2, 3):
              for variant in (0, 1):
                if tier == 'quick' and variant == 1 and name not in ('rebind_path', 'rebind_multi', 'setitem', 'dsetitem', 'rebind_l'):
                  continue
                op = {'op': name, 't': p + variant, 'i': variant, 'j': None, 's': None, 'k': variant, 'v': [7],
                      'src': None, 'sv': False, 'nf': False, 'm': 1 + variant, 'locs': [{'i': 1, 'm': 1, 'v': 8}]}
                yield {'root': shape, 'mode': mode, 'p': p, 'scopes': stack, 'op': op}
  return {'matrix': gen()}


def _flags(root):
  return [(tuple(n.sym_path.keys), n.sym_sealed, getattr(n, 'accessor_writable', None))
          for n in treeops.preorder(root)]


def _innermost(scopes, kind):
  val = 'unset'
  for k, v in scopes:
    if k == kind:
      val = v
  return None if val == 'unset' else val


def execute(case):
  res = core.Result()
  if not isinstance(case, dict) or case.get('mode') not in MODES or not isinstance(case.get('op'), dict):
    raise core.InvalidCase(case)
  scopes = case.get('scopes', [])
  if not isinstance(scopes, list) or any(
      not (isinstance(s, list) and len(s) == 2 and s[0] in ('sealed', 'aw') and s[1] in (True, False, None)) for s in scopes):
    raise core.InvalidCase(case)
  mode = case['mode']
  op = case['op']
  name = op.get('op')
  if name not in OPS:
    raise core.InvalidCase(case)

  def build():
    r = values.build(case['root'], symbolic=True)
    if not isinstance(r, pg.Symbolic):
      raise core.InvalidCase(case)
    return r
  root = build()
  nodes = treeops.preorder(root)
  pidx = case.get('p', 0)
  if isinstance(pidx, bool) or not isinstance(pidx, int):
    raise core.InvalidCase(case)
  prot = nodes[pidx % len(nodes)]
  if mode == 'ctor':
    prot = root
  res.label('mode:' + mode, 'op:' + name)

  def protect(r, node):
    extra = []
    if mode == 'seal':
      node.seal()
    elif mode == 'ctor':
      # sealed at construction: rebuild the root with sealed=True
      if isinstance(r, pg.Dict):
        r = pg.Dict(dict(r.sym_items()) and {k: v.clone(deep=True) if isinstance(v, pg.Symbolic) else v for k, v in r.sym_items()}, sealed=True)
      elif isinstance(r, pg.List):
        r = pg.List([v.clone(deep=True) if isinstance(v, pg.Symbolic) else v for v in r.sym_values()], sealed=True)
      else:
        r = type(r)(sealed=True, **{k: (v.clone(deep=True) if isinstance(v, pg.Symbolic) else v) for k, v in r.sym_items()})
    elif mode == 'scope_sealed':
      extra.append(['sealed', True])
    elif mode == 'aw_off':
      node.set_accessor_writable(False)
    elif mode == 'scope_aw':
      extra.append(['aw', False])
    return r, extra
  root, extra = protect(root, prot)
  if mode == 'ctor':
    prot = root        # (the root was rebuilt with sealed=True)
  nodes = treeops.preorder(root)
  # scope stack: the protection scope is outermost, then the generated overrides
  stack = extra + scopes
  sealed_scope = _innermost(stack, 'sealed')
  aw_scope = _innermost(stack, 'aw')

  def sealed_eff(n):
    if sealed_scope is not None:
      return sealed_scope
    if mode in ('seal', 'ctor'):
      # sealing covers the whole subtree (decided from the tree, not from the flag the node reports)
      return treeops.is_ancestor_or_self(prot, n)
    return n.sym_sealed

  def aw_eff(n):
    return n.accessor_writable if aw_scope is None else aw_scope

  # the op is generated relative to the protected node's subtree: remap the target index
  sub = treeops.preorder(prot if mode != 'ctor' else root)
  t = op.get('t', 0)
  if isinstance(t, bool) or not isinstance(t, int):
    raise core.InvalidCase(case)
  start = sub[t % len(sub)]
  if name in ('rebind_path', 'rebind_multi') and op.get('i', 0) % 2 == 1 and start.sym_parent is not None:
    start = start.sym_parent      # rebind issued from an ancestor into the protected subtree
    res.label('from-ancestor')
  op2 = dict(op)
  op2['t'] = [i for i, x in enumerate(nodes) if x is start][0]
  op2['src'] = None

  # what would happen without any protection (on a fresh tree): does the op change state?
  free = build()
  fout = treeops.apply_op([free], dict(op2), allow_move=False, direct_inplace=True)
  free_changed = fout.status == 'ok' and c07.snapshot(free) != c07.snapshot(build())

  # values are built before any scope is entered (construction is not a write to a protected value)
  prebuilt_values = [values.build(op2.get('v'), symbolic=bool(op2.get('sv'))) for _ in range(2)]

  def fresh_value():
    return prebuilt_values.pop()

  before = (c07.snapshot(root), _flags(root))
  flags_by_id = {id(n): (n, n.sym_sealed, getattr(n, 'accessor_writable', None)) for n in nodes}
  holder = [root]
  with contextlib.ExitStack() as es:
    for k, v in stack:
      es.enter_context(pg.as_sealed(v) if k == 'sealed' else pg.allow_writable_accessors(v))
    out = treeops.apply_op(holder, op2, allow_move=False, direct_inplace=True, prebuilt=fresh_value)
  if out.status == 'skip' or out.target is None:
    return res
  target = out.target
  holders = out.holders or [target]
  refused = out.status == 'exc' and isinstance(out.exc, pg.WritePermissionError)
  after = (c07.snapshot(holder[0]), _flags(holder[0]))
  any_sealed = any(sealed_eff(h) for h in holders)
  all_unsealed = not any_sealed
  any_aw_off = any(not aw_eff(h) for h in holders)
  sig = {'op': name, 'mode': mode,
         'sealed_scope': str(sealed_scope), 'aw_scope': str(aw_scope)}
  desc = 'op=%r on %s at %r; protected %s at %r; scopes=%r' % (
      treeops.describe(op2), type(target).__name__, str(target.sym_path), type(prot).__name__,
      str(prot.sym_path), stack)
  has_desc = any(isinstance(v, pg.Symbolic) for _, v in prot.sym_items())
  if free_changed and has_desc:
    res.nontrivial = True
  # ---- no operation may change the protection flags of a node that stays in the tree
  for n in treeops.preorder(holder[0]):
    rec = flags_by_id.get(id(n))
    if rec is not None and (n.sym_sealed, getattr(n, 'accessor_writable', None)) != rec[1:]:
      return res.violate('flags (sealed, accessor_writable) of %s at %r changed from %r to %r by %s' % (
          type(n).__name__, str(n.sym_path), rec[1:], (n.sym_sealed, getattr(n, 'accessor_writable', None)), desc),
                         law='op-changed-protection-flags', **sig)
  # ---- expectation
  must_refuse = None
  if name in treeops.LIST_OPS + treeops.DICT_OPS + treeops.OBJ_OPS + ['rebind_path', 'rebind_multi']:
    if any_sealed and (len(holders) == 1 or all(sealed_eff(h) for h in holders)):
      must_refuse = True
    elif all_unsealed:
      if name in ACCESSOR_OPS:
        must_refuse = True if any_aw_off else False
      elif name in REBIND_OPS or not any_aw_off:
        must_refuse = False
      elif name in UNSPEC_UNDER_AW or name in treeops.LIST_OPS + treeops.DICT_OPS:
        must_refuse = None if name in UNSPEC_UNDER_AW | {'update', 'ior', 'dclear', 'clear', 'append', 'insert',
                                                           'extend', 'sort', 'reverse', 'iadd', 'imul'} else False
  if name == 'rebind_fn':
    must_refuse = None if any_sealed else False
    if sealed_eff(target) and all(sealed_eff(n) for n in treeops.preorder(target)):
      must_refuse = True if free_changed else None
  if name == 'osetattr' and not type(target).allow_symbolic_assignment and aw_scope is not True and not sealed_eff(target):
    must_refuse = True    # class-level accessor protection
  if name == 'osetattr' and isinstance(target, pg.Object) and out.status == 'exc' and isinstance(out.exc, AttributeError):
    must_refuse = None
  res.label('expect:%s' % must_refuse, 'refused' if refused else out.status)
  if must_refuse is True:
    if not refused:
      if out.status == 'exc' and not free_changed:
        res.label('other-error-first')
      elif out.status == 'ok' and after == before and not free_changed:
        res.label('noop-not-refused')
        return res.violate('a no-op write on a protected value was not refused: ' + desc,
                           law='forbidden-not-refused', changed='no', **sig) if name in ACCESSOR_OPS else res
      else:
        return res.violate('forbidden write was not refused (%s): %s' % (
            'returned normally' if out.status == 'ok' else 'raised %r' % out.exc, desc),
                           law='forbidden-not-refused', changed=str(after != before), **sig)
    if after != before:
      return res.violate('refused write changed the tree or its flags: ' + desc, law='refused-but-changed', **sig)
  if (refused and must_refuse is not True and after != before
      and name not in ('rebind_multi', 'rebind_fn', 'update', 'ior', 'extend', 'iadd', 'setslice', 'imul')):   # (batches may stop half-way)
    # whether or not the refusal was required: a call that ends in WritePermissionError must not have changed anything
    return res.violate('refused write changed the tree or its flags: ' + desc, law='refused-but-changed', required='no', **sig)
  if must_refuse is False:
    if refused:
      return res.violate('write refused although the documented rule allows it (%s): %s' % (out.exc, desc),
                         law='over-protection', **sig)
  # ---- removing the protection restores mutability
  if refused and mode in ('seal', 'ctor', 'aw_off'):
    r2 = holder[0]
    if mode in ('seal', 'ctor'):
      (r2 if mode == 'ctor' else prot).seal(False)
    else:
      prot.set_accessor_writable(True)
    with contextlib.ExitStack() as es:
      for k, v in scopes:
        es.enter_context(pg.as_sealed(v) if k == 'sealed' else pg.allow_writable_accessors(v))
      out2 = treeops.apply_op([r2], op2, allow_move=False, direct_inplace=True, prebuilt=fresh_value)
    still = out2.status == 'exc' and isinstance(out2.exc, pg.WritePermissionError)
    gen_sealed = _innermost(scopes, 'sealed')
    gen_aw = _innermost(scopes, 'aw')
    if still and gen_sealed is not True and gen_aw is not False and not any(
        h.sym_sealed or not h.accessor_writable for h in (out2.holders or [])):
      return res.violate('still refused after the protection was removed: ' + desc, law='unprotect-does-not-restore', **sig)
  return res
