"""C10 — path addressing is exact: parse/format, lookup, traversal, flatten/canonicalize."""
import copy
import itertools

import pyglove as pg
from hypothesis import strategies as st

from pgverif import core

ID = 'C10'
RULE = ('three case kinds: (path) key sequences over hostile keys -> parse/format round trip with key types, '
        'arithmetic (+, parent, -, is_relative_to, ordering) against Python lists; (value) nested values with '
        'hostile dict keys -> utils.traverse / pg.traverse / pg.query visit each node once with a path that looks '
        'up that node, flatten/canonicalize inverse, rebind-by-function hits exactly the selected nodes; (sets) two '
        'KeyPathSets driven by an op history against Python sets of key tuples. Non-trivial: >=1 key with a special '
        'character or a digits-only string and depth >=2 (path/value), or >=3 set ops incl. a binary one; '
        'distinct = distinct case JSON')
ASSUMPTIONS = [
    'string keys are non-empty with properly nested brackets (the stated quantifier)',
    'flatten/canonicalize inverse is asserted on string-keyed dicts and lists only (int-keyed dicts are documented to be listified)',
    'ordering: trichotomy/transitivity asserted only where no compared position pairs an int with a string (documented lexicographic str() compare)',
    'KeyPathSet.add(include_intermediate=True) is not part of the set-algebra reference',
]
BUDGET = {'quick': 12000, 'thorough': 300000}
EXHAUSTIVE_DOMAINS = {
    'parse_format': 'all key sequences of length 1..3 over a 10-symbol hostile key alphabet: parse(str(p)) == p with identical key types',
}

ALPHA = ['a', 'b', '0', '7', '-', '.', ' ', 'é', '٣', '$', 'x.y', '..', '1']
EX_KEYS = ['a', '0', '-1', 'a.b', '[0]', '[x]', ' ', '.', 0, -1]


def key_text():
  plain = st.lists(st.sampled_from(ALPHA), max_size=4).map(''.join)

  def wrap(inner):
    return st.one_of(
        inner.map(lambda s: '[' + s + ']'),
        st.tuples(inner, inner).map(lambda t: t[0] + t[1]))
  return st.recursive(plain, wrap, max_leaves=4).filter(lambda s: s != '')


def key():
  return st.one_of(key_text(), key_text(), st.integers(-3, 12),
                   st.sampled_from(['0', '1', '12', '-1', 'a', 'b', 'k']))


def keys(max_size=5):
  return st.lists(key(), max_size=max_size)


def _value(depth):
  leaf = st.one_of(st.integers(-2, 9), st.sampled_from(['s', None, True, 1.5]))
  skey = st.one_of(key_text(), st.sampled_from(['0', '1', 'a', 'b', 'k', '-1']))

  def ext(c):
    return st.one_of(
        st.lists(c, max_size=3),
        st.lists(st.tuples(skey, c), max_size=3, unique_by=lambda kv: kv[0]).map(
            lambda kvs: {'$d': [list(kv) for kv in kvs]}))
  return st.recursive(leaf, ext, max_leaves=depth)


def strategy(tier):
  path_case = st.fixed_dictionaries({
      'kind': st.just('path'), 'p': keys(), 'q': keys(3), 'r': keys(4)})
  value_case = st.fixed_dictionaries({
      'kind': st.just('value'),
      'v': st.one_of(st.lists(_value(8), max_size=3),
                     st.lists(st.tuples(key_text(), _value(8)), max_size=3,
                              unique_by=lambda kv: kv[0]).map(
                                  lambda kvs: {'$d': [list(kv) for kv in kvs]})),
      'sel': st.lists(st.integers(0, 30), max_size=4),
      'intkeys': st.booleans()})
  set_op = st.fixed_dictionaries({
      'op': st.sampled_from(['add', 'remove', 'contains', 'union', 'intersection', 'difference',
                             'update', 'intersection_update', 'difference_update', 'rebase',
                             'has_prefix', 'copy', 'clear', 'plus', 'eq', 'kp_plus']),
      'on': st.integers(0, 1), 'p': keys(3)})
  set_keys = st.lists(st.one_of(st.sampled_from(['a', 'b', 'c', 'x.y', '0', 'a', 'b', 'c', 'x.y', '0', '$']), st.integers(0, 2)),
                      max_size=3)
  set_op2 = st.fixed_dictionaries({
      'op': st.sampled_from(['add', 'remove', 'contains', 'union', 'intersection', 'difference',
                             'update', 'intersection_update', 'difference_update', 'rebase',
                             'has_prefix', 'copy', 'clear', 'plus', 'eq', 'kp_plus']),
      'on': st.integers(0, 1), 'p': set_keys})
  sets_case = st.fixed_dictionaries({
      'kind': st.just('sets'),
      'a': st.lists(set_keys, max_size=5), 'b': st.lists(set_keys, max_size=5),
      'ops': st.lists(st.one_of(set_op2, set_op2, set_op), max_size=10)})
  ikey = st.integers(-2, 3)

  def iext(c):
    return st.one_of(
        st.lists(c, max_size=3),
        st.lists(st.tuples(ikey, c), min_size=1, max_size=4, unique_by=lambda kv: kv[0]).map(
            lambda kvs: {'$d': [list(kv) for kv in kvs]}),
        st.lists(st.tuples(st.sampled_from(['a', 'b', 'k']), c), min_size=1, max_size=3, unique_by=lambda kv: kv[0]).map(
            lambda kvs: {'$d': [list(kv) for kv in kvs]}))
  intdict_case = st.fixed_dictionaries({
      'kind': st.just('intdict'),
      'v': st.recursive(st.one_of(st.integers(0, 5), st.sampled_from(['s', None])), iext, max_leaves=6).filter(
          lambda x: isinstance(x, (list, dict)))})
  return st.one_of(path_case, value_case, sets_case, value_case, intdict_case)


def exhaustive(tier):
  def gen():
    for n in (1, 2, 3):
      for ks in itertools.product(EX_KEYS, repeat=n):
        yield {'kind': 'path', 'p': list(ks), 'q': [], 'r': [], 'only_parse': True}
  return {'parse_format': gen()}


def _balanced(s):
  d = 0
  for ch in s:
    if ch == '[':
      d += 1
    elif ch == ']':
      d -= 1
      if d < 0:
        return False
  return d == 0


def _check_keys(ks):
  if not isinstance(ks, list):
    raise core.InvalidCase(ks)
  for k in ks:
    if isinstance(k, bool) or not isinstance(k, (str, int)):
      raise core.InvalidCase(ks)
    if isinstance(k, str) and (k == '' or not _balanced(k)):
      raise core.InvalidCase(ks)
  return ks


def _special(k):
  return isinstance(k, str) and (any(c in k for c in '[].') or k.lstrip('-').isdigit())


def _same_keys(a, b):
  return len(a) == len(b) and all(type(x) is type(y) and x == y for x, y in zip(a, b))


def _build(d, intkeys=False):
  if isinstance(d, list):
    return [_build(x, intkeys) for x in d]
  if isinstance(d, dict):
    if '$d' not in d or not isinstance(d['$d'], list):
      raise core.InvalidCase(d)
    out = {}
    for kv in d['$d']:
      if not (isinstance(kv, list) and len(kv) == 2):
        raise core.InvalidCase(d)
      _check_keys([kv[0]])
      if not isinstance(kv[0], str) and not intkeys:
        raise core.InvalidCase(d)
      out[kv[0]] = _build(kv[1], intkeys)
    return out
  return d


def _nodes(v, path=()):
  """Reference pre-order walk: (key tuple, node)."""
  yield path, v
  if isinstance(v, dict):
    for k, x in v.items():
      yield from _nodes(x, path + (k,))
  elif isinstance(v, list):
    for i, x in enumerate(v):
      yield from _nodes(x, path + (i,))


def _path_case(case, res):
  p, q, r = _check_keys(case.get('p', [])), _check_keys(case.get('q', [])), _check_keys(case.get('r', []))
  if any(_special(k) for k in p) and len(p) >= 2:
    res.nontrivial = True
  kp = pg.KeyPath(list(p))
  text = str(kp)
  try:
    back = pg.KeyPath.parse(text)
  except Exception as e:   # pylint: disable=broad-except
    return res.violate('keys=%r printed as %r, parse raised %r' % (p, text, e), law='parse-format', how='raises')
  if not _same_keys(back.keys, list(p)):
    return res.violate('keys=%r printed as %r parsed back as %r' % (p, text, back.keys), law='parse-format', how='differs')
  if not (kp == text) or hash(kp) != hash(text):
    return res.violate('keys=%r: KeyPath != its own string %r (or hash differs)' % (p, text), law='str-eq')
  # the same path built one key at a time, with the string form of every prefix already materialised
  inc = pg.KeyPath()
  for k in p:
    str(inc)
    inc = pg.KeyPath(k, inc)
  if not _same_keys(inc.keys, list(p)) or str(inc) != text or not (inc == kp) or hash(inc) != hash(kp):
    return res.violate('keys=%r built incrementally prints as %r, built from the key list as %r' % (p, str(inc), text),
                       law='parse-format', how='incremental')
  if case.get('only_parse'):
    return res
  kq, kr = pg.KeyPath(list(q)), pg.KeyPath(list(r))
  # concatenation
  s = kp + kq
  if not _same_keys(s.keys, list(p) + list(q)):
    return res.violate('%r + %r = %r' % (p, q, s.keys), law='concat')
  if q:
    s1 = kp + pg.KeyPath(q[0]) if not isinstance(q[0], str) else pg.KeyPath(q[0], kp)
    if not _same_keys(s1.keys, list(p) + [q[0]]):
      return res.violate('KeyPath(key, parent) keys %r' % s1.keys, law='concat-key')
  # parent / key / depth
  if len(kp) != len(p) or kp.depth != len(p) or kp.is_root != (not p):
    return res.violate('depth/len/is_root wrong for %r' % p, law='depth')
  if p:
    if not _same_keys(kp.parent.keys, list(p[:-1])) or not _same_keys([kp.key], [p[-1]]):
      return res.violate('parent/key of %r: %r / %r' % (p, kp.parent.keys, kp.key), law='parent')
  else:
    for what in ('parent', 'key'):
      try:
        getattr(kp, what)
        return res.violate('%s of root did not raise' % what, law='root-' + what)
      except KeyError:
        pass
  # subtraction and prefix test
  for a, b in ((s, kp), (kp, kr), (kr, kp), (kp, kp)):
    la, lb = a.keys, b.keys
    is_prefix = len(lb) <= len(la) and _same_keys(la[:len(lb)], lb)
    if a.is_relative_to(b) != is_prefix:
      return res.violate('%r.is_relative_to(%r) = %r' % (la, lb, a.is_relative_to(b)), law='is_relative_to')
    try:
      d = a - b
      ok = True
    except ValueError:
      ok = False
    if ok != is_prefix:
      return res.violate('%r - %r %s' % (la, lb, 'succeeded' if ok else 'raised'), law='sub-domain')
    if ok and not _same_keys(d.keys, la[len(lb):]):
      return res.violate('%r - %r = %r' % (la, lb, d.keys), law='sub-value')
    if ok and not _same_keys((b + d).keys, la):
      return res.violate('b + (a - b) != a for a=%r b=%r' % (la, lb), law='sub-add')
  # ordering
  trio = [kp, kq, kr, s]
  mixed = False
  for a, b in itertools.product(trio, repeat=2):
    la, lb = a.keys, b.keys
    try:
      lt, gt, le, ge = a < b, a > b, a <= b, a >= b
    except Exception as e:   # pylint: disable=broad-except
      return res.violate('comparing %r and %r raised %r' % (la, lb, e), law='order-raises')
    if lt != (b > a) or le != (b >= a):
      return res.violate('%r < %r is %r but swapped > is %r' % (la, lb, lt, b > a), law='order-dual')
    pair_mixed = any(isinstance(x, int) != isinstance(y, int) for x, y in zip(la, lb))
    mixed = mixed or pair_mixed
    if not pair_mixed:
      # reference: lexicographic, ints numerically, strings as strings
      ref = None
      for x, y in zip(la, lb):
        if x != y:
          ref = x < y
          break
      if ref is None:
        ref = len(la) < len(lb)
      eq = _same_keys(la, lb)
      if lt != (ref and not eq):
        return res.violate('%r < %r is %r, key sequences say %r' % (la, lb, lt, ref and not eq), law='order-lex')
      if int(lt) + int(gt) + int(a == b) != 1:
        return res.violate('trichotomy fails for %r, %r' % (la, lb), law='order-trichotomy')
      if le != (lt or eq) or ge != (gt or eq):
        return res.violate('<= / >= inconsistent for %r, %r' % (la, lb), law='order-le')
  try:
    out = sorted(trio)
  except Exception as e:   # pylint: disable=broad-except
    return res.violate('sorted raised %r' % e, law='sort-raises')
  if not mixed:
    for x, y in zip(out, out[1:]):
      if y < x:
        return res.violate('sorted output out of order', law='sort-order')
  res.label('mixed-order' if mixed else 'pure-order')
  return res


def _listify(v):
  """The documented normal form: a non-empty dict whose keys are exactly range(0, N) is a list."""
  if isinstance(v, list):
    return [_listify(x) for x in v]
  if isinstance(v, dict):
    out = {k: _listify(x) for k, x in v.items()}
    if out and all(isinstance(k, int) and not isinstance(k, bool) for k in out) and sorted(out) == list(range(len(out))):
      return [out[k] for k in sorted(out)]
    return out
  return v


def _intdict_case(case, res):
  """flatten / canonicalize on dicts with int keys: only a perfect range(0, N) may become a list."""
  v = _build(case.get('v'), True)
  if not isinstance(v, (list, dict)):
    raise core.InvalidCase(case)

  def uniform(x):
    if isinstance(x, dict):
      kinds = {isinstance(k, int) for k in x}
      return len(kinds) <= 1 and all(uniform(y) for y in x.values())
    if isinstance(x, list):
      return all(uniform(y) for y in x)
    return True
  if not uniform(v):
    raise core.InvalidCase(case)
  has_sparse = []

  def scan(x):
    if isinstance(x, dict):
      if x and all(isinstance(k, int) for k in x) and sorted(x) != list(range(len(x))):
        has_sparse.append(1)
      for y in x.values():
        scan(y)
    elif isinstance(x, list):
      for y in x:
        scan(y)
  scan(v)
  if has_sparse:
    res.nontrivial = True
    res.label('sparse-int-dict')
  flat = pg.utils.flatten(v, flatten_complex_keys=False)
  try:
    back = pg.utils.canonicalize(flat)
  except Exception as e:   # pylint: disable=broad-except
    return res.violate('canonicalize(flatten(%r)) raised %r; flat=%r' % (v, e, flat), law='flatten-inverse', how='raises', keys='int')
  want = _listify(v)
  if not _deep_same(back, want):
    return res.violate('canonicalize(flatten(v)) = %r for v = %r (expected %r); flat=%r' % (back, v, want, flat),
                       law='flatten-inverse', how='differs', keys='int')
  return res


def _value_case(case, res):
  intkeys = bool(case.get('intkeys'))
  v = _build(case.get('v'), False)
  if not isinstance(v, (list, dict)):
    raise core.InvalidCase(case)
  ref = list(_nodes(v))
  if any(_special(k) for path, _ in ref for k in path) and max(len(p) for p, _ in ref) >= 2:
    res.nontrivial = True
  # utils.traverse on the plain value
  pre, post = [], []
  pg.utils.traverse(v, lambda p, x: pre.append((p, x)) or True, lambda p, x: post.append((p, x)) or True)
  if len(pre) != len(ref) or len(post) != len(ref):
    return res.violate('utils.traverse visited %d/%d nodes of %d in %r' % (len(pre), len(post), len(ref), v),
                       law='traverse-count', api='utils.traverse')
  for (p, x), (rp, rx) in zip(pre, ref):
    if not _same_keys(p.keys, list(rp)) or x is not rx:
      return res.violate('utils.traverse pre-order mismatch at %r vs %r in %r' % (p.keys, rp, v),
                         law='traverse-order', api='utils.traverse')
    if p.query(v) is not rx:
      return res.violate('path %r does not look up the visited node in %r' % (str(p), v),
                         law='traverse-lookup', api='utils.traverse')
    back = pg.KeyPath.parse(str(p))
    if not _same_keys(back.keys, list(rp)):
      return res.violate('printed path %r parses to %r, keys were %r' % (str(p), back.keys, rp),
                         law='traverse-printed-path', api='utils.traverse')
  if sorted(id(x) for _, x in post if isinstance(x, (list, dict))) != \
      sorted(id(x) for _, x in ref if isinstance(x, (list, dict))):
    return res.violate('post-order container set differs', law='traverse-post', api='utils.traverse')
  # symbolic value: pg.traverse and pg.query
  sv = pg.from_json(copy.deepcopy(v))
  sref = list(_nodes_sym(sv))
  seen = []
  pg.traverse(sv, lambda p, x, parent: seen.append((p, x, parent)) or pg.TraverseAction.ENTER)
  if len(seen) != len(sref):
    return res.violate('pg.traverse visited %d nodes of %d in %r' % (len(seen), len(sref), v),
                       law='traverse-count', api='pg.traverse')
  for (p, x, parent), (rp, rx, rparent) in zip(seen, sref):
    if not _same_keys(p.keys, list(rp)) or x is not rx or parent is not rparent:
      return res.violate('pg.traverse mismatch at %r vs %r in %r' % (p.keys, rp, v),
                         law='traverse-order', api='pg.traverse')
    got = sv.sym_get(p) if p.keys else sv
    if got is not rx:
      return res.violate('sym_get(%r) is not the visited node in %r' % (str(p), v),
                         law='traverse-lookup', api='pg.traverse')
    if isinstance(rx, pg.Symbolic) and not _same_keys(rx.sym_path.keys, list(rp)):
      return res.violate('sym_path %r of node at %r' % (rx.sym_path.keys, rp), law='sym_path', api='pg.traverse')
  q = pg.query(sv, enter_selected=True)
  if len(q) != len(sref):
    return res.violate('pg.query returned %d entries for %d nodes in %r: %r' % (len(q), len(sref), v, list(q)),
                       law='query-count', api='pg.query')
  for (ps, x), (rp, rx, _) in zip(q.items(), sref):
    try:
      parsed = pg.KeyPath.parse(ps).keys
    except Exception as e:   # pylint: disable=broad-except
      return res.violate('pg.query key %r for the node at %r does not parse: %r' % (ps, rp, e), law='query-path', api='pg.query',
                         how='unparsable')
    if not _same_keys(parsed, list(rp)) or x is not rx:
      return res.violate('pg.query key %r vs node at %r in %r' % (ps, rp, v), law='query-path', api='pg.query')
  # flatten / canonicalize are inverse (string-keyed dicts and lists)
  flat = pg.utils.flatten(v, flatten_complex_keys=False)
  try:
    back = pg.utils.canonicalize(flat)
  except Exception as e:   # pylint: disable=broad-except
    return res.violate('canonicalize(flatten(%r)) raised %r; flat=%r' % (v, e, flat), law='flatten-inverse', how='raises')
  if not _deep_same(back, v):
    return res.violate('canonicalize(flatten(v)) = %r for v = %r; flat=%r' % (back, v, flat), law='flatten-inverse', how='differs')
  leaves = [(p, x) for p, x in ref if p and (not isinstance(x, (list, dict)) or not x)]
  if v and (len(flat) != len(leaves)):
    return res.violate('flatten has %d entries for %d leaves of %r' % (len(flat), len(leaves), v), law='flatten-count')
  # rebind by function hits exactly the selected nodes
  sel = case.get('sel', [])
  prim = [(p, x) for p, x, _ in sref if p and not isinstance(x, (list, dict))]
  if prim and isinstance(sel, list) and sel:
    chosen = {prim[i % len(prim)][0] for i in sel if isinstance(i, int) and not isinstance(i, bool)}
    marker = 'REBOUND'

    def fn(k, x, p):
      del p
      return marker if tuple(k.keys) in chosen and not isinstance(x, (list, dict)) else x
    try:
      sv.rebind(fn, raise_on_no_change=False)
    except Exception as e:   # pylint: disable=broad-except
      return res.violate('rebind(fn) raised %r on %r, chosen %r' % (e, v, sorted(map(str, chosen))), law='rebind-fn', how='raises')
    after = {p: x for p, x, _ in _nodes_sym(sv)}
    for p, x in prim:
      want = marker if p in chosen else x
      if p not in after or after[p] != want or type(after[p]) is not type(want):
        return res.violate('after rebind(fn) node %r = %r, expected %r (chosen %r) in %r' % (
            p, after.get(p), want, sorted(map(str, chosen)), v), law='rebind-fn', how='wrong-node')
    if len(after) != len(sref):
      return res.violate('rebind(fn) changed the node count', law='rebind-fn', how='count')
    res.label('rebind-fn')
  del intkeys
  return res


def _nodes_sym(v, path=(), parent=None):
  yield path, v, parent
  if isinstance(v, pg.Dict):
    for k, x in v.sym_items():
      yield from _nodes_sym(x, path + (k,), v)
  elif isinstance(v, pg.List):
    for i, x in v.sym_items():
      yield from _nodes_sym(x, path + (i,), v)


def _deep_same(a, b):
  if type(a) is not type(b):
    return False
  if isinstance(a, dict):
    return list(a.keys()) == list(b.keys()) and all(
        type(x) is type(y) for x, y in zip(a.keys(), b.keys())) and all(_deep_same(a[k], b[k]) for k in a)
  if isinstance(a, list):
    return len(a) == len(b) and all(_deep_same(x, y) for x, y in zip(a, b))
  return a == b


def _tk(ks):
  return tuple((type(k).__name__, k) for k in ks)


def _sets_case(case, res):
  real = [pg.KeyPathSet(), pg.KeyPathSet()]
  model = [set(), set()]
  for i, name in enumerate(('a', 'b')):
    for ks in case.get(name, []):
      _check_keys(ks)
      real[i].add(pg.KeyPath(list(ks)))
      model[i].add(_tk(ks))
  n_ops = 0
  binary = False

  def compare(tag):
    for i in (0, 1):
      got = [_tk(p.keys) for p in real[i]]
      if len(got) != len(set(got)):
        return 'iteration yields duplicates in set %d after %s: %r' % (i, tag, got), 'iter-dup'
      if set(got) != model[i]:
        return 'set %d after %s holds %r, reference %r' % (i, tag, sorted(map(str, got)), sorted(map(str, model[i]))), 'contents'
      if bool(real[i]) != bool(model[i]):
        return 'bool(set %d) after %s is %r with %d paths' % (i, tag, bool(real[i]), len(model[i])), 'bool'
      for ks in list(model[i])[:4]:
        if pg.KeyPath([k for _, k in ks]) not in real[i]:
          return 'member %r not found by `in` after %s' % (ks, tag), 'contains'
    if (real[0] == real[1]) != (model[0] == model[1]) or (real[0] != real[1]) == (model[0] == model[1]):
      return 'a == b is %r, reference %r after %s' % (real[0] == real[1], model[0] == model[1], tag), 'eq'
    return None
  bad = compare('init')
  if bad:
    return res.violate(bad[0], law='set-' + bad[1], op='init')
  for op in case.get('ops', []):
    if not isinstance(op, dict) or 'op' not in op:
      raise core.InvalidCase(op)
    name, i = op['op'], op.get('on', 0) % 2
    j = 1 - i
    ks = _check_keys(op.get('p', []))
    kp = pg.KeyPath(list(ks))
    t = _tk(ks)
    n_ops += 1
    res.label('op:' + str(name))
    if name == 'add':
      r = real[i].add(kp)
      want = t not in model[i]
      model[i].add(t)
      if bool(r) != want:
        return res.violate('add(%r) returned %r, reference says changed=%r' % (ks, r, want), law='set-return', op=name)
    elif name == 'remove':
      r = real[i].remove(kp)
      want = t in model[i]
      model[i].discard(t)
      if bool(r) != want:
        return res.violate('remove(%r) returned %r, reference %r' % (ks, r, want), law='set-return', op=name)
    elif name == 'contains':
      if (kp in real[i]) != (t in model[i]):
        return res.violate('%r in set is %r, reference %r' % (ks, kp in real[i], t in model[i]), law='set-contains', op=name)
    elif name in ('union', 'plus', 'intersection', 'difference'):
      binary = True
      if name == 'union':
        out, m = real[i].union(real[j]), model[i] | model[j]
      elif name == 'plus':
        out, m = real[i] + real[j], model[i] | model[j]
      elif name == 'intersection':
        out, m = real[i].intersection(real[j]), model[i] & model[j]
      else:
        out, m = real[i].difference(real[j]), model[i] - model[j]
      got = [_tk(p.keys) for p in out]
      if set(got) != m or len(got) != len(m):
        return res.violate('%s of %r and %r gives %r, reference %r' % (
            name, sorted(map(str, model[i])), sorted(map(str, model[j])), sorted(map(str, got)), sorted(map(str, m))),
                           law='set-binary', op=name)
      if bool(out) != bool(m):
        return res.violate('bool(%s result) is %r with %d paths' % (name, bool(out), len(m)), law='set-bool', op=name)
      # the result is independent of its operands (also below nodes they have in common)
      out.add(pg.KeyPath(['__probe__']))
      for pth in list(out)[:2]:
        out.add(pg.KeyPath(list(pth.keys) + ['__probe__']))
    elif name == 'kp_plus':
      # the operator form of rebase: path + set
      try:
        out = kp + real[i]
      except Exception as e:   # pylint: disable=broad-except
        return res.violate('%r + set raised %r' % (ks, e), law='set-op-raises', op=name)
      m = {tuple(t) + tuple(x) for x in model[i]}
      got = [_tk(p.keys) for p in out]
      if set(got) != m or len(got) != len(m):
        return res.violate('%r + %r gives %r, reference %r' % (ks, sorted(map(str, model[i])), sorted(map(str, got)), sorted(map(str, m))),
                           law='set-binary', op=name)
      for pth in list(out)[:2]:
        out.add(pg.KeyPath(list(pth.keys) + ['__probe__']))
      out.add(pg.KeyPath(['__probe2__']))
    elif name == 'update':
      binary = True
      real[i].update(real[j])
      model[i] |= model[j]
    elif name == 'intersection_update':
      binary = True
      real[i].intersection_update(real[j])
      model[i] &= model[j]
    elif name == 'difference_update':
      binary = True
      real[i].difference_update(real[j])
      model[i] -= model[j]
    elif name == 'rebase':
      real[i].rebase(kp)
      model[i] = {t + x for x in model[i]}
    elif name == 'has_prefix':
      want = any(x[:len(t)] == t for x in model[i]) if (t or model[i]) else True
      if t and real[i].has_prefix(kp) != want:
        return res.violate('has_prefix(%r) is %r, reference %r' % (ks, real[i].has_prefix(kp), want), law='set-prefix', op=name)
    elif name == 'copy':
      c = real[i].copy()
      c.add(pg.KeyPath(['__probe__']))
    elif name == 'clear':
      real[i].clear()
      model[i] = set()
    elif name == 'eq':
      pass
    else:
      raise core.InvalidCase(op)
    bad = compare(name)
    if bad:
      return res.violate(bad[0], law='set-' + bad[1], op=name)
  if n_ops >= 3 and binary:
    res.nontrivial = True
  return res


def execute(case):
  res = core.Result()
  if not isinstance(case, dict):
    raise core.InvalidCase(case)
  kind = case.get('kind')
  res.label('kind:%s' % kind)
  if kind == 'path':
    return _path_case(case, res)
  if kind == 'value':
    return _value_case(case, res)
  if kind == 'intdict':
    return _intdict_case(case, res)
  if kind == 'sets':
    # The reserved trie marker '$' used as a *key* is a recorded finding; every
    # violation of a case that contains such a key carries dollar_key=True.
    dollar = any(k == '$' for ks in case.get('a', []) + case.get('b', []) +
                 [o.get('p', []) for o in case.get('ops', []) if isinstance(o, dict)]
                 if isinstance(ks, list) for k in ks)
    if dollar:
      res.label('dollar-key')
    try:
      _sets_case(case, res)
    except core.InvalidCase:
      raise
    except RecursionError:
      raise
    except Exception as e:   # pylint: disable=broad-except
      res.violate('KeyPathSet operation raised %r' % e, law='set-raises', exc=type(e).__name__)
    for sig, _ in res.violations:
      sig['dollar_key'] = str(dollar)
    return res
  raise core.InvalidCase(case)
