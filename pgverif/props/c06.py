"""C06 — symbolic equality, hashing and ordering obey their algebraic laws."""
import copy
import functools
import re

import pyglove as pg
from hypothesis import strategies as st

from pgverif import core
from pgverif.gen import classes
from pgverif.gen import values

ID = 'C06'
RULE = ('a pool of 2-8 values = generated base values closed under perturbations (rebuilt copy, permuted '
        'dict key order, symbolic<->plain container, one leaf changed, key added, subclass swap, '
        'int<->float<->bool of equal numeric value); all pairs and triples of the pool are checked against '
        'the eq/ne/hash/==/lt/gt laws. Non-trivial: the pool holds two values that are pg.eq but not '
        'identical, or two containers of the same shape differing in exactly one leaf; distinct = distinct case JSON')
ASSUMPTIONS = [
    'NaN is not generated (Python equality itself is not reflexive on NaN)',
    'tuples hold only mutually comparable primitives, one primitive kind (numbers or strings) per case, as the quantifier says',
    'hash laws are asserted only where pg.hash does not raise TypeError (unhashable plain containers)',
    'user classes with asymmetric sym_eq overrides are not generated; one class pair (Money / MoneyCash) with a symmetric '
    'sym_eq that equates instances across the two classes is used for the eq / ne negation law only',
]
BUDGET = {'quick': 8000, 'thorough': 200000}

PERTURB = ['copy', 'permute', 'sym', 'leaf', 'addkey', 'subclass', 'num', 'dropkey', 'wrap', 'typedwrap', 'permute', 'nc', 'lastleaf']
KEYS = ['k', 'm', 'n', 0, 1]


def strategy(tier):
  def base(tkind):
    prim = (st.one_of(st.integers(-2, 3), st.sampled_from([0.5, 2.0, True]))
            if tkind == 'num' else st.sampled_from(['a', 'b', 'ab', '']))
    tup = st.lists(prim, max_size=3).map(lambda v: {'$t': v})
    scal = st.one_of(st.integers(-2, 3), st.sampled_from(['a', 'b', '', None, True, False, 0.5, 2.0, 1.0]),
                     st.just({'$missing': 1}), tup)
    return values.vdesc(max_leaves=6, keys=KEYS, objects=True, scalars=scal)
  def canned(c):
    """In 1 of 4 cases, append a sequence that builds equal-but-distinct twins followed by a one-leaf change."""
    k = c.pop('canned')
    n0 = len(c['base'])
    if k == 1:      # same content under free dict keys in two insertion orders
      c['perturb'] = c['perturb'][:2] + [{'src': 0, 'kind': 'typedwrap', 'arg': 1}]
      m = n0 + len(c['perturb']) - 1
      c['perturb'] += [{'src': m, 'kind': 'permute', 'arg': 0}, {'src': m, 'kind': 'lastleaf', 'arg': 0}]
    elif k == 2:    # identity-compared objects in front of a difference
      c['perturb'] = c['perturb'][:2] + [{'src': 0, 'kind': 'nc', 'arg': 1}]
      m = n0 + len(c['perturb']) - 1
      c['perturb'] += [{'src': m, 'kind': 'copy', 'arg': 0}, {'src': m, 'kind': 'lastleaf', 'arg': 0},
                       {'src': m, 'kind': 'wrap', 'arg': 0}]
    return c
  return st.sampled_from(['num', 'str']).flatmap(lambda tk: st.fixed_dictionaries({
      'canned': st.sampled_from([0, 0, 0, 0, 1, 2]),
      'base': st.lists(base(tk), min_size=1, max_size=4),
      'perturb': st.lists(st.fixed_dictionaries({
          'src': st.integers(0, 7), 'kind': st.sampled_from(PERTURB), 'arg': st.integers(0, 5)}),
                          max_size=5),
  })).map(canned)


def _perturb(d, kind, arg):
  """Returns a perturbed descriptor (pure function on JSON)."""
  if kind == 'copy' or kind == 'sym':
    return d
  if kind == 'permute':
    if isinstance(d, dict) and '$d' in d:
      return {'$d': [[k, _perturb(v, kind, arg)] for k, v in reversed(d['$d'])]}
    if isinstance(d, dict) and '$o' in d:
      return {'$o': d['$o'], 'a': {k: _perturb(v, kind, arg) for k, v in reversed(list(d['a'].items()))}}
    if isinstance(d, list):
      return [_perturb(v, kind, arg) for v in d]
    return d
  if kind == 'leaf':
    state = {'n': arg}

    def walk(x):
      if isinstance(x, list):
        return [walk(v) for v in x]
      if isinstance(x, dict):
        if '$d' in x:
          return {'$d': [[k, walk(v)] for k, v in x['$d']]}
        if '$o' in x:
          return {'$o': x['$o'], 'a': {k: walk(v) for k, v in x['a'].items()}}
        if '$t' in x:
          return {'$t': [walk(v) for v in x['$t']]}
        return x
      if state['n'] == 0:
        state['n'] = -1
        if isinstance(x, bool):
          return not x
        if isinstance(x, (int, float)):
          return x + 1
        if isinstance(x, str):
          return x + 'x'
        return 0
      if state['n'] > 0:
        state['n'] -= 1
      return x
    return walk(d)
  if kind == 'addkey':
    if isinstance(d, dict) and '$d' in d:
      present = {(type(k).__name__, k) for k, _ in d['$d']}
      k = KEYS[arg % len(KEYS)]
      if (type(k).__name__, k) not in present:
        return {'$d': d['$d'] + [[k, arg]]}
    if isinstance(d, list):
      return d + [arg]
    return d
  if kind == 'dropkey':
    if isinstance(d, dict) and '$d' in d and d['$d']:
      i = arg % len(d['$d'])
      return {'$d': d['$d'][:i] + d['$d'][i + 1:]}
    if isinstance(d, list) and d:
      return d[:-1]
    return d
  if kind == 'subclass':
    if isinstance(d, dict) and '$o' in d:
      swap = {'P': ['Q', 'R', 'NC'], 'Q': ['P', 'R'], 'R': ['P', 'Q'], 'W': ['W'], 'NC': ['P']}
      names = swap.get(d['$o'], [d['$o']])
      return {'$o': names[arg % len(names)],
              'a': {k: v for k, v in d['a'].items()}}
    return d
  if kind == 'num':
    def conv(x):
      if isinstance(x, bool):
        return int(x) if arg % 2 else float(x)
      if isinstance(x, int):
        return float(x) if arg % 2 else (bool(x) if x in (0, 1) else float(x))
      if isinstance(x, float) and x == int(x):
        return int(x)
      if isinstance(x, list):
        return [conv(v) for v in x]
      if isinstance(x, dict) and '$d' in x:
        return {'$d': [[k, conv(v)] for k, v in x['$d']]}
      if isinstance(x, dict) and '$o' in x:
        return {'$o': x['$o'], 'a': {k: conv(v) for k, v in x['a'].items()}}
      return x
    return conv(d)
  if kind == 'wrap':
    return [d] if arg % 2 else {'$d': [['k', d]]}
  if kind == 'nc':
    # objects whose == / != are by identity (use_symbolic_comparison=False), nested in the value
    def conv(x):
      if isinstance(x, list):
        return [conv(v) for v in x]
      if isinstance(x, dict):
        if '$d' in x:
          return {'$d': [[k, conv(v)] for k, v in x['$d']]}
        if '$o' in x:
          name = 'NC' if x['$o'] in ('P', 'Q', 'NC') else x['$o']
          return {'$o': name, 'a': {k: conv(v) for k, v in x['a'].items() if name != 'NC' or k in ('x', 'y')}}
        return x
      return x
    out = conv(d)
    if out == d:
      # no object to convert: put one in front of the other content
      return {'$d': [['a', {'$o': 'NC', 'a': {'x': arg}}], ['z', d]]}
    return out
  if kind == 'lastleaf':
    # change the LAST primitive leaf (the values in front of it stay equal)
    count = {'n': 0}

    def cnt(x):
      if isinstance(x, list):
        for v in x:
          cnt(v)
      elif isinstance(x, dict):
        for v in (x.get('$d') and [kv[1] for kv in x['$d']]) or (list(x['a'].values()) if '$o' in x else []) or x.get('$t', []):
          cnt(v)
      else:
        count['n'] += 1
    cnt(d)
    return _perturb(d, 'leaf', max(0, count['n'] - 1)) if count['n'] else d
  if kind == 'typedwrap':
    # a dict with str keys held by a field whose schema does not fix the keys
    if isinstance(d, dict) and '$d' in d and d['$d'] and all(isinstance(k, str) for k, _ in d['$d']):
      return {'$o': 'DK', 'a': {('m', 's')[arg % 2]: d}}
    return {'$o': 'DK', 'a': {'m': {'$d': [['k', d], ['m', arg]]}}}
  raise core.InvalidCase(kind)


def _build(d, symbolic):
  def sub(x):
    if isinstance(x, dict) and '$missing' in x:
      return pg.MISSING_VALUE
    return None
  return _build_rec(d, symbolic)


class Money(pg.Object):
  """A user class whose equality is by amount, for the class and its subclasses alike."""
  amount: pg.typing.Any()

  def sym_eq(self, other):
    return isinstance(other, Money) and pg.eq(self.amount, other.amount)

  def sym_hash(self):
    return hash((Money, pg.hash(self.amount)))


class MoneyCash(Money):
  pass


def _fresh(v):
  return v.clone(deep=True) if isinstance(v, pg.Symbolic) else copy.deepcopy(v)


def _build_rec(d, symbolic):
  if isinstance(d, dict) and '$missing' in d:
    return pg.MISSING_VALUE
  if isinstance(d, list):
    v = [_build_rec(x, symbolic) for x in d]
    return pg.List(v) if symbolic else v
  if isinstance(d, dict):
    if '$d' in d:
      v = {}
      for kv in d['$d']:
        if not (isinstance(kv, list) and len(kv) == 2 and isinstance(kv[0], (str, int))
                and not isinstance(kv[0], bool) and kv[0] != ''):
          raise core.InvalidCase(d)
        v[kv[0]] = _build_rec(kv[1], symbolic)
      return pg.Dict(v) if symbolic else v
    if '$o' in d:
      cls = classes.CLASSES.get(d['$o'])
      if cls is None or not isinstance(d.get('a'), dict):
        raise core.InvalidCase(d)
      fields = classes.FIELDS.get(d['$o'], ())
      return cls(**{k: _build_rec(x, symbolic) for k, x in d['a'].items() if k in fields})
    if '$t' in d:
      if not isinstance(d['$t'], list):
        raise core.InvalidCase(d)
      items = [x for x in d['$t']]
      kinds = {('s' if isinstance(x, str) else 'n') for x in items
               if isinstance(x, (int, float, str))}
      if len(kinds) > 1 or any(not isinstance(x, (int, float, str)) for x in items):
        raise core.InvalidCase(d)
      return tuple(items)
    raise core.InvalidCase(d)
  return d


def _kind(v):
  if isinstance(v, pg.Object):
    return 'obj:' + type(v).__name__
  if isinstance(v, pg.List):
    return 'pglist'
  if isinstance(v, pg.Dict):
    return 'pgdict'
  if v is pg.MISSING_VALUE or isinstance(v, pg.utils.MissingValue):
    return 'missing'
  return type(v).__name__


def _leaves_differ_by_one(a, b):
  """1 if plain forms have the same shape and differ in exactly one leaf."""
  def diff(x, y):
    if isinstance(x, (list, tuple)) and isinstance(y, (list, tuple)) and len(x) == len(y):
      return sum(diff(p, q) for p, q in zip(x, y))
    if isinstance(x, dict) and isinstance(y, dict) and set(x) == set(y):
      return sum(diff(x[k], y[k]) for k in x)
    if isinstance(x, (list, tuple, dict)) or isinstance(y, (list, tuple, dict)):
      return 100
    try:
      return 0 if (x == y and type(x) is type(y)) else 1
    except Exception:   # pylint: disable=broad-except
      return 100
  try:
    pa, pb = pg.to_json(a), pg.to_json(b)
  except Exception:   # pylint: disable=broad-except
    return False
  return isinstance(pa, (list, dict)) and diff(pa, pb) == 1


_BETWEEN = re.compile(r"instances of '(\w+)' and '(\w+)'")


def execute(case):
  res = core.Result()
  if not isinstance(case, dict) or not isinstance(case.get('base'), list) \
      or not isinstance(case.get('perturb', []), list) or not case['base']:
    raise core.InvalidCase(case)
  descs = list(case['base'])
  flags = [False] * len(descs)
  for p in case.get('perturb', []):
    if not isinstance(p, dict) or p.get('kind') not in PERTURB:
      raise core.InvalidCase(p)
    src = p.get('src', 0)
    arg = p.get('arg', 0)
    if isinstance(src, bool) or not isinstance(src, int) or isinstance(arg, bool) or not isinstance(arg, int):
      raise core.InvalidCase(p)
    i = src % len(descs)
    descs.append(_perturb(descs[i], p['kind'], arg))
    flags.append(p['kind'] == 'sym' or (flags[i] and p['kind'] != 'sym' and arg % 2 == 0))
    res.label('perturb:' + p['kind'])
  # one primitive kind for all tuples of the case
  tk = set()

  def scan(x):
    if isinstance(x, list):
      for v in x:
        scan(v)
    elif isinstance(x, dict):
      if '$t' in x and isinstance(x['$t'], list):
        for v in x['$t']:
          if isinstance(v, str):
            tk.add('s')
          elif isinstance(v, (int, float)):
            tk.add('n')
      for v in x.values():
        scan(v)
  scan(descs)
  if len(tk) > 1:
    raise core.InvalidCase('mixed tuple kinds')
  pool = [_build_rec(d, f) for d, f in zip(descs, flags)]
  pool = pool[:8]
  n = len(pool)
  for v in pool:
    res.label('kind:' + _kind(v).split(':')[0])

  def show(*idx):
    return ' ; '.join('%d=%r' % (i, pool[i]) for i in idx)[:900]

  # classes whose (symmetric) user-defined equality relates instances of a class and of its subclass: equality and
  # inequality stay each other's negation there too (only eq / ne are compared: the order of different classes is
  # by class name and is not the user's to define)
  for i in range(n):
    for j in range(n):
      try:
        a, b = Money(amount=_fresh(pool[i])), MoneyCash(amount=_fresh(pool[j]))
      except RecursionError:
        raise
      except Exception:   # pylint: disable=broad-except
        continue
      for wa, wb, shape in ((a, b, 'bare'), ([a], [b], 'list'), ({'k': a}, {'k': b}, 'dict')):
        e, ne_ = pg.eq(wa, wb), pg.ne(wa, wb)
        if bool(e) == bool(ne_):
          return res.violate('ne == eq == %r on Money(%r) vs MoneyCash(%r) (%s)' % (e, pool[i], pool[j], shape),
                             law='ne-not-eq', kinds='user-eq-across-classes', shape=shape)
        if shape == 'bare' and (a.sym_ne(b) == a.sym_eq(b) or (a != b) == (a == b)):
          return res.violate('sym_ne / != do not negate sym_eq / == on Money(%r) vs MoneyCash(%r)' % (pool[i], pool[j]),
                             law='ne-not-eq', kinds='user-eq-across-classes', shape='methods')
  eqm = [[None] * n for _ in range(n)]
  ltm = [[None] * n for _ in range(n)]
  for i in range(n):
    for j in range(n):
      a, b = pool[i], pool[j]
      try:
        e = pg.eq(a, b)
        ne = pg.ne(a, b)
      except RecursionError:
        raise
      except Exception as ex:   # pylint: disable=broad-except
        return res.violate('eq/ne raised %r on %s' % (ex, show(i, j)),
                           law='eq-raises', exc=type(ex).__name__, kinds='%s/%s' % (_kind(a), _kind(b)))
      if not isinstance(e, bool) and e not in (True, False):
        return res.violate('eq returned %r' % (e,), law='eq-type')
      eqm[i][j] = bool(e)
      if bool(ne) == bool(e):
        return res.violate('ne == eq == %r on %s' % (e, show(i, j)), law='ne-not-eq',
                           kinds='%s/%s' % (_kind(a), _kind(b)))
      try:
        l = pg.lt(a, b)
        g = pg.gt(b, a)
      except RecursionError:
        raise
      except Exception as ex:   # pylint: disable=broad-except
        m = _BETWEEN.search(str(ex))
        between = '%s,%s' % m.groups() if m else ''
        return res.violate('lt/gt raised %r on %s' % (ex, show(i, j)),
                           law='lt-raises', exc=type(ex).__name__, between=between)
      ltm[i][j] = bool(l)
      if bool(g) != bool(l):
        return res.violate('gt(b,a)=%r but lt(a,b)=%r on %s' % (g, l, show(i, j)), law='gt-is-swapped-lt',
                           kinds='%s/%s' % (_kind(a), _kind(b)))
  for i in range(n):
    if not eqm[i][i]:
      return res.violate('not eq to itself: %s' % show(i), law='eq-reflexive', kinds=_kind(pool[i]))
    for j in range(n):
      a, b = pool[i], pool[j]
      kinds = '%s/%s' % tuple(sorted([_kind(a), _kind(b)]))
      if eqm[i][j] != eqm[j][i]:
        return res.violate('eq(a,b)=%r eq(b,a)=%r on %s' % (eqm[i][j], eqm[j][i], show(i, j)),
                           law='eq-symmetric', kinds=kinds)
      if eqm[i][j] and i != j:
        if a is not b:
          res.nontrivial = True
          res.label('eq-not-identical')
        try:
          ha, hb = pg.hash(a), pg.hash(b)
        except TypeError:
          ha = hb = None
          res.label('unhashable')
        if ha != hb:
          return res.violate('eq but hashes differ on %s' % show(i, j), law='eq-implies-hash', kinds=kinds)
      elif i < j and _leaves_differ_by_one(a, b):
        res.nontrivial = True
        res.label('one-leaf-apart')
      cnt = int(ltm[i][j]) + int(eqm[i][j]) + int(ltm[j][i])
      if cnt != 1:
        return res.violate('lt(a,b)=%r eq=%r lt(b,a)=%r on %s' % (ltm[i][j], eqm[i][j], ltm[j][i], show(i, j)),
                           law='trichotomy', kinds=kinds, eq=eqm[i][j], lt=ltm[i][j], gt=ltm[j][i])
      # operators of classes that opt into symbolic comparison
      for x, y, e in ((a, b, eqm[i][j]),):
        # pg.Dict / pg.List keep the builtin dict / list equality: they do not opt in.
        if isinstance(x, pg.Object) and type(x).use_symbolic_comparison:
          if (x == y) != e or (x != y) == e:
            return res.violate('==/!= disagree with pg.eq=%r on %s' % (e, show(i, j)),
                               law='operator-eq', kinds=kinds)
    a = pool[i]
    if isinstance(a, pg.Object) and type(a).use_symbolic_comparison:
      if hash(a) != pg.hash(a):
        return res.violate('hash() != pg.hash on %s' % show(i), law='operator-hash', kinds=_kind(a))
  for i in range(n):
    for j in range(n):
      for k in range(n):
        if eqm[i][j] and eqm[j][k] and not eqm[i][k]:
          return res.violate('eq not transitive on %s' % show(i, j, k), law='eq-transitive',
                             kinds='/'.join(sorted({_kind(pool[i]), _kind(pool[j]), _kind(pool[k])})))
        if ltm[i][j] and ltm[j][k] and not ltm[i][k]:
          return res.violate('lt not transitive on %s' % show(i, j, k), law='lt-transitive',
                             kinds='/'.join(sorted({_kind(pool[i]), _kind(pool[j]), _kind(pool[k])})))
  try:
    order = sorted(range(n), key=functools.cmp_to_key(
        lambda i, j: -1 if pg.lt(pool[i], pool[j]) else (1 if pg.lt(pool[j], pool[i]) else 0)))
  except Exception as ex:   # pylint: disable=broad-except
    return res.violate('sorting raised %r' % ex, law='sort-raises', exc=type(ex).__name__)
  for p, q in zip(order, order[1:]):
    if ltm[q][p]:
      return res.violate('sorted output out of order: %s' % show(p, q), law='sort-ordered')
  res.label('pool:%d' % n)
  return res
