"""C15 — search algorithms recover their state from history at every crash point."""
import pyglove as pg
from hypothesis import strategies as st
from pyglove.ext import evolution as ev

from pgverif import core
from pgverif.gen import genospec

ID = 'C15'
LEVEL = 'fault_enumeration'
RULE = ('an algorithm configuration (Sweeping, Random(seed), Deduping over them with max_duplicates / hash_fn variants, '
        'regularized_evolution, hill_climb, nsga2 with tuple rewards, neat, Deduping over evolution with/without '
        'auto_reward_fn), a finite space, a run length N<=16 and a pipeline depth w<=4 (the feedback of proposal i arrives '
        'after proposal i+w); for EVERY crash point k in 0..N a fresh instance is set up on the same space and recovers the '
        'first k history records (DNA + metadata + reward or None, persisted through to_json_str/from_json_str; the last '
        '0..3 measured trials optionally persisted as they were when proposed, their reward having arrived later) and is '
        'compared with an uninterrupted run stopped at k: proposal / feedback counts, population with fitness, counts of the '
        'wrapped algorithm, de-duplication memory; for sweeping / seeded random / de-duplication over them also the next 4 '
        'proposals. Non-trivial: 0<k<N with >=1 in-flight proposal at the crash point, or a wrapped configuration')
ASSUMPTIONS = [
    'a crash is modelled by abandoning the instance after k proposals; the persisted history is all the new instance sees',
    'generation counters and RNG state of selectors / mutators are not in the statement and are not compared',
    'the de-duplication memory is read from Deduping._cache as {key: number of entries} (there is no public accessor)',
    'rewards are strictly positive (NEAT divides by the fitness sum)',
]
BUDGET = {'quick': 240, 'thorough': 12000}

KINDS = ['sweep', 'random', 'dd-sweep', 'dd-random', 're', 'hc', 'nsga2', 'neat', 'dd-re', 'dd-re-auto', 'dd-hc']
DETERMINISTIC_NEXT = {'sweep', 'random', 'dd-sweep', 'dd-random'}


def strategy(tier):
  return st.fixed_dictionaries({
      'kind': st.sampled_from(KINDS),
      'seed': st.one_of(st.just(0), st.integers(0, 99), st.integers(0, 99)),   # 0 is a boundary value (falsy seed)
      'pop': st.integers(2, 5),
      'tour': st.integers(2, 3),
      'maxdup': st.integers(1, 3),
      'hash': st.sampled_from(['default', 'first', 'len']),
      'shape': genospec.shape_strategy(max_depth=1, floats=False, names=False, max_cands=4, max_k=2, max_elems=3),
      'N': st.integers(0, 14),
      'w': st.integers(0, 4),
      'late': st.sampled_from([0, 0, 0, 1, 2, 3]),
  })


def make_algo(case):
  kind, seed = case['kind'], case.get('seed', 0)
  pop, tour = case.get('pop', 3), case.get('tour', 2)
  for x in (seed, pop, tour, case.get('maxdup', 1)):
    if isinstance(x, bool) or not isinstance(x, int):
      raise core.InvalidCase(case)
  hash_fn = {'default': None,
             'first': lambda d: (d.to_numbers() or [0])[0],
             'len': lambda d: sum(int(v) for v in d.to_numbers() if isinstance(v, int)) % 3}.get(case.get('hash', 'default'))

  def evo(k):
    m = ev.mutators.Uniform(seed=seed)
    if k == 're':
      return ev.regularized_evolution(m, population_size=pop, tournament_size=max(2, min(tour, pop)), seed=seed)
    if k == 'hc':
      return ev.hill_climb(m, batch_size=max(1, tour), init_population_size=pop, seed=seed)
    if k == 'nsga2':
      return ev.nsga2(m, population_size=pop, seed=seed)
    return ev.neat(m, population_size=pop, seed=seed)
  if kind == 'sweep':
    return pg.geno.Sweeping()
  if kind == 'random':
    return pg.geno.Random(seed=seed)
  if kind == 'dd-sweep':
    return pg.geno.Deduping(pg.geno.Sweeping(), hash_fn=hash_fn, max_proposal_attempts=6, max_duplicates=case.get('maxdup', 1))
  if kind == 'dd-random':
    return pg.geno.Deduping(pg.geno.Random(seed=seed), hash_fn=hash_fn, max_proposal_attempts=6, max_duplicates=case.get('maxdup', 1))
  if kind in ('re', 'hc', 'nsga2', 'neat'):
    return evo(kind)
  if kind == 'dd-re':
    return pg.geno.Deduping(evo('re'), hash_fn=hash_fn, max_proposal_attempts=6, max_duplicates=case.get('maxdup', 1))
  if kind == 'dd-hc':
    return pg.geno.Deduping(evo('hc'), hash_fn=hash_fn, max_proposal_attempts=6, max_duplicates=case.get('maxdup', 1))
  if kind == 'dd-re-auto':
    return pg.geno.Deduping(evo('re'), hash_fn=hash_fn, max_proposal_attempts=6, max_duplicates=case.get('maxdup', 1),
                            auto_reward_fn=lambda rs: sum(rs) / len(rs))
  raise core.InvalidCase(case)


def reward_of(dna, multi):
  nums = [v for v in dna.to_numbers() if isinstance(v, (int, float))]
  r = 1.0 + float(sum((i + 1) * v for i, v in enumerate(nums))) % 7.0     # strictly positive (NEAT shares fitness proportionally)
  return (r, float(len(nums)) - r) if multi else r


def state_of(algo):
  s = {'num_proposals': algo.num_proposals, 'num_feedbacks': algo.num_feedbacks}
  inner = algo
  if isinstance(algo, pg.geno.Deduping):
    s['dedup_memory'] = {repr(k): len(v) for k, v in sorted(algo._cache.items(), key=lambda kv: repr(kv[0]))}   # pylint: disable=protected-access
    # (the wrapped generator's own counters are not compared: proposals it made that were rejected
    # as duplicates are not part of any history, so they cannot be recovered)
    inner = algo.generator
  if isinstance(inner, ev.Evolution):
    s['population'] = [(tuple(d.to_numbers()), ev.get_fitness(d) if 'reward' in d.metadata else None)
                       for d in inner.population]
  return s


def run_until(case, spec, k, multi):
  """Uninterrupted run of k proposals with feedback delay w; returns (algo, history, in_flight)."""
  algo = make_algo(case)
  algo.setup(spec)
  w = case.get('w', 0)
  history = []      # [dna, reward or None]
  pending = []
  for _ in range(k):
    d = algo.propose()
    rec = [d, None, pg.to_json_str(d)]
    history.append(rec)
    pending.append(rec)
    if len(pending) > w:
      p = pending.pop(0)
      # Deduping with auto reward hands out DNAs that already carry their reward
      r = p[0].metadata.get('reward') if 'reward' in p[0].metadata and isinstance(algo, pg.geno.Deduping) else None
      if r is None:
        r = reward_of(p[0], multi)
      algo.feedback(p[0], r)     # the sampling loop reports every measured trial, needed or not
      p[1] = r
  return algo, history, len(pending)


class _Stepper:
  """The uninterrupted run, advanced one proposal at a time."""

  def __init__(self, case, spec, multi):
    self.algo = make_algo(case)
    self.algo.setup(spec)
    self.w = case.get('w', 0)
    self.multi = multi
    self.history = []
    self.pending = []
    self.k = 0

  def advance_to(self, k):
    while self.k < k:
      d = self.algo.propose()
      rec = [d, None, pg.to_json_str(d)]
      self.history.append(rec)
      self.pending.append(rec)
      if len(self.pending) > self.w:
        p = self.pending.pop(0)
        r = p[0].metadata.get('reward') if 'reward' in p[0].metadata and isinstance(self.algo, pg.geno.Deduping) else None
        if r is None:
          r = reward_of(p[0], self.multi)
        self.algo.feedback(p[0], r)
        p[1] = r
      self.k += 1
    return self.algo, [list(x) for x in self.history], len(self.pending)


def execute(case):
  res = core.Result()
  if not isinstance(case, dict) or case.get('kind') not in KINDS or not isinstance(case.get('shape'), dict):
    raise core.InvalidCase(case)
  shape = case['shape']
  genospec.validate(shape)
  if shape['t'] != 'space' or not shape['e'] or not genospec.is_finite(shape):
    raise core.InvalidCase(case)
  kind = case['kind']
  N, w = case.get('N', 0), case.get('w', 0)
  if any(isinstance(x, bool) or not isinstance(x, int) or x < 0 for x in (N, w)) or N > 40 or w > 8:
    raise core.InvalidCase(case)
  if kind in DETERMINISTIC_NEXT:
    N = min(N, 10)      # these are re-run from scratch for every crash point
  size = genospec.size(shape, 10 ** 6)
  if size < 2:
    res.label('trivial-space')
    return res
  spec = genospec.build(shape)
  multi = kind == 'nsga2'
  res.label('kind:' + kind, 'w:%d' % w)
  sig = {'kind': kind}
  wrapped = kind.startswith('dd-')
  # Evolution-based configurations: one uninterrupted run, observed after every proposal (the
  # observation does not disturb it); cheap deterministic generators are re-run per crash point
  # because the "next proposals" comparison consumes the instance.
  stepper = None if kind in DETERMINISTIC_NEXT else _Stepper(case, spec, multi)
  for k in range(0, N + 1):
    try:
      if stepper is None:
        a, history, in_flight = run_until(case, spec, k, multi)
      else:
        a, history, in_flight = stepper.advance_to(k)
    except StopIteration:
      res.label('space-exhausted')
      break
    except RecursionError:
      raise
    except Exception as e:   # pylint: disable=broad-except
      return res.violate('the uninterrupted run raised %r at proposal %d; case=%r' % (e, k, case), law='run-raises',
                         exc=type(e).__name__, **sig)
    if (0 < k < N and in_flight >= 1) or wrapped:
      res.nontrivial = True
    persisted = [(pg.to_json_str(d), r) for d, r, _ in history]
    # the reward of the last `late` measured trials arrived, but their DNA was persisted when it was proposed
    # (the controller stopped before it recorded the feedback): recover has to account for them itself
    late = case.get('late', 0)
    if isinstance(late, bool) or not isinstance(late, int) or not 0 <= late <= 4:
      raise core.InvalidCase(case)
    rewarded = [i for i, (_, r, _) in enumerate(history) if r is not None]
    for i in rewarded[len(rewarded) - late:] if late else []:
      persisted[i] = (history[i][2], history[i][1])
    if late and rewarded:
      res.label('late-feedback')
    b = make_algo(case)
    b.setup(spec)
    what = 'k=%d N=%d w=%d in_flight=%d history=%r; case=%r' % (
        k, N, w, in_flight, [(d.to_numbers(), r) for d, r, _ in history], {x: y for x, y in case.items() if x != 'shape'})
    try:
      b.recover([(pg.from_json_str(s), r) for s, r in persisted])
    except RecursionError:
      raise
    except Exception as e:   # pylint: disable=broad-except
      return res.violate('recover raised %r; %s' % (e, what), law='recover-raises', exc=type(e).__name__,
                         pending=str(in_flight > 0), **sig)
    sa, sb = state_of(a), state_of(b)
    for key in sa:
      if sa[key] != sb.get(key):
        return res.violate('%s: uninterrupted %r, recovered %r; %s' % (key, sa[key], sb.get(key), what),
                           law='state-differs', what=key, pending=str(in_flight > 0), **sig)
    if kind in DETERMINISTIC_NEXT:
      def nxt(algo):
        out = []
        try:
          for _ in range(4):
            out.append(tuple(algo.propose().to_numbers()))
        except StopIteration:
          out.append('stop')
        return out
      dups_at_crash = isinstance(a, pg.geno.Deduping) and a.generator.num_proposals > a.num_proposals
      na, nb = nxt(a), nxt(b)
      if na != nb:
        extra = {}
        if dups_at_crash:
          # the wrapped generator made proposals that were rejected as duplicates: they are in no history
          extra['dups_rejected'] = '1'
        return res.violate('next proposals: uninterrupted %r, recovered %r; %s' % (na, nb, what), law='next-proposals-differ',
                           pending=str(in_flight > 0), **extra, **sig)
  return res
