"""C03 — schema invariant: a typed symbolic value always satisfies its declared schema."""
import contextlib

import json

import pyglove as pg
from hypothesis import strategies as st

from pgverif import core
from pgverif.gen import specs
from pgverif.gen import treeops

ID = 'C03'
RULE = ('a generated schema (list/dict/object over the value-spec vocabulary with ranges, sizes, enums, '
        'nested specs, unions, noneable/default/frozen, dynamic keys), a valid (possibly partial) initial value '
        'and a history of valid and near-miss writes through every write path; after every step the whole tree is '
        're-validated by the library spec on a deep clone and by an independent acceptance predicate, and a write '
        'the predicate classifies invalid must raise Type/Value/KeyError and leave to_json unchanged. '
        'Non-trivial: >=1 rejected write and >=1 accepted structural write on a typed list or dynamic-key dict; '
        'distinct = distinct case JSON')
ASSUMPTIONS = [
    'type check stays enabled (the property is stated under type-check on)',
    'user transform callbacks and regex constraints are not generated',
    'a batch (extend, update, slice assignment, multi-path rebind) may have applied its earlier valid elements',
    'the independent predicate is conservative: it answers "unknown" for conversions it does not model',
]
BUDGET = {'quick': 6000, 'thorough': 120000}

LIST_OPS = ['append', 'insert', 'extend', 'pop', 'remove', 'delitem', 'delslice', 'setitem',
            'setslice', 'clear', 'iadd', 'imul', 'sort', 'reverse', 'rebind_l']
DICT_OPS = ['dsetitem', 'dsetattr', 'ddelitem', 'dpop', 'popitem', 'update', 'setdefault',
            'dclear', 'ior', 'rebind_d', 'setmissing']
OBJ_OPS = ['rebind_o', 'osetattr', 'rebind_missing']
ANY_OPS = ['rebind_path', 'rebind_batch']
ALL_OPS = LIST_OPS + DICT_OPS + OBJ_OPS + ANY_OPS
STRUCT = {'append', 'insert', 'extend', 'pop', 'remove', 'delitem', 'delslice', 'setslice', 'clear',
          'iadd', 'imul', 'rebind_l', 'dsetitem', 'dsetattr', 'ddelitem', 'dpop', 'update', 'setdefault',
          'ior', 'rebind_d', 'setmissing'}
REJECT = (TypeError, ValueError, KeyError)


def strategy(tier):
  n = 14 if tier == 'quick' else 28
  op = st.fixed_dictionaries({
      'op': st.sampled_from(ALL_OPS),
      't': st.integers(0, 30), 'i': st.integers(-5, 6),
      'j': st.one_of(st.none(), st.integers(-5, 6)), 's': st.one_of(st.none(), st.integers(-2, 3)),
      'k': st.integers(0, 7), 'c': specs.CHOICES, 'bad': st.booleans(),
      'nf': st.sampled_from([False, False, False, True]),
      'ap': st.sampled_from([None, None, None, None, True, False]),
      'm': st.integers(0, 5),
  })
  return st.fixed_dictionaries({
      'spec': specs.container_spec_strategy(max_leaves=5),
      'init': specs.CHOICES,
      'partial': st.sampled_from([False, False, True]),
      'scope_init': st.sampled_from([False, False, True]),
      'ops': st.lists(op, min_size=1, max_size=n),
  })


_INT = {'t': 'int', 'min': None, 'max': None}
FIXED_SPECS = [
    # a required value one level down: clearing / resetting the outer dict must be refused as a whole
    {'t': 'dict', 'fields': [['n', dict(_INT, default=[1])],
                             ['sub', {'t': 'dict', 'fields': [['b', _INT], ['c', {'t': 'str', 'default': [0]}]]}]]},
    # size-bounded list of dicts under an object
    {'t': 'object', 'fields': [['l', {'t': 'list', 'elem': {'t': 'dict', 'fields': [['k', _INT]]}, 'min': 1, 'max': 3}],
                               ['d', {'t': 'dict', 'fields': [['u', dict(_INT, default=[2])]], 'dyn': {'t': 'str'}}]]},
    {'t': 'list', 'elem': {'t': 'list', 'elem': dict(_INT, min=0, max=5), 'min': 1, 'max': 2}, 'min': 2, 'max': 4},
    {'t': 'dict', 'fields': [['t', {'t': 'tuple', 'elems': [_INT, {'t': 'str'}]}],
                             ['e', {'t': 'enum', 'values': ['p', 'q'], 'default': [0]}],
                             ['o', {'t': 'object', 'fields': [['x', _INT], ['y', {'t': 'str', 'default': [1]}]], 'noneable': True}]]},
]
EXHAUSTIVE_DOMAINS = {
    'fixed_specs_single_ops': '4 hand-picked schemas (required value in a nested dict, size-bounded nested lists, dynamic keys, '
                              'tuple / enum / noneable object fields) x every op x target 0..3 x mode 0..5 x valid/near-miss value',
}


def exhaustive(tier):
  def gen():
    for spec in FIXED_SPECS:
      for name in ALL_OPS:
        for t in range(4):
          for m in range(6):
            for bad in (False, True):
              for c in ([0], [1, 2]) if tier != 'quick' else ([m],):
                yield {'spec': spec, 'init': [t, m], 'partial': False, 'scope_init': False,
                       'ops': [{'op': name, 't': t, 'i': m - 2, 'j': None if m % 2 else m, 's': None, 'k': m, 'c': c, 'bad': bad,
                                'nf': False, 'ap': None, 'm': m}]}
  return {'fixed_specs_single_ops': gen()}


def _typed_nodes(root):
  return treeops.preorder(root)


def _build_root(desc, ch, partial):
  spec = specs.to_spec(desc)
  t = desc['t']
  v = specs.sample({k: x for k, x in desc.items() if k not in ('noneable', 'default', 'frozen')}, ch)
  if t == 'list':
    return pg.List(v, value_spec=spec, allow_partial=partial)
  if t == 'dict':
    if partial:
      for k, s in desc['fields']:
        if not specs.has_default(s) and ch.pick(2) == 0:
          v.pop(k, None)
      return pg.Dict.partial(v, value_spec=spec)
    return pg.Dict(v, value_spec=spec)
  if t == 'object':
    if partial:
      kw = {k: x for k, x in v.sym_init_args.items()}
      for k, s in desc['fields']:
        if not specs.has_default(s) and ch.pick(2) == 0:
          kw.pop(k, None)
      return type(v).partial(**kw)
    return v
  raise core.InvalidCase(desc)


def _state_check(root, desc, lenient):
  """Returns (rule, detail) of the first broken state invariant or None."""
  spec = specs.to_spec({k: x for k, x in desc.items() if k not in ('noneable', 'default', 'frozen')})
  try:
    with pg.allow_partial(True if lenient else None):
      twin = root.clone(deep=True)
  except Exception as e:   # pylint: disable=broad-except
    return 'clone-raises', 'deep clone of the current state raised %r' % e
  for partial in ([True] if lenient else [False]):
    try:
      out = spec.apply(twin, allow_partial=partial)
    except REJECT as e:
      return 'library-spec-rejects-state', 'spec.apply(state) raised %s: %s | state=%s' % (
          type(e).__name__, str(e)[:200], _r(root))
    except RecursionError:
      raise
    except Exception as e:   # pylint: disable=broad-except
      return 'state-unusable', 'spec.apply(state) raised internal %s: %s | state=%s' % (
          type(e).__name__, str(e)[:200], dict.__repr__(root) if isinstance(root, dict) else type(root).__name__)
    try:
      same = pg.eq(out, root)
    except Exception:   # pylint: disable=broad-except
      same = True
    if not same:
      return 'state-not-fixpoint', 'spec.apply(state) = %s differs from state %s' % (_r(out), _r(root))
  verdict = specs.accepts({k: x for k, x in desc.items() if k not in ('noneable', 'default', 'frozen')},
                          root, partial=lenient)
  if verdict is False:
    return 'predicate-rejects-state', 'independent predicate rejects state %s of %r' % (_r(root), desc)
  return None


def _r(x):
  """repr that survives a corrupt object."""
  try:
    return repr(x)
  except Exception as e:   # pylint: disable=broad-except
    return '<unprintable %s: %s>' % (type(x).__name__, type(e).__name__)


def _json(root):
  try:
    return pg.to_json_str(root)
  except Exception:   # pylint: disable=broad-except
    return repr(root)


def execute(case):
  res = core.Result()
  if not isinstance(case, dict) or not isinstance(case.get('ops'), list) or not isinstance(case.get('spec'), dict):
    raise core.InvalidCase(case)
  desc = case['spec']
  # No state may leak between cases: classes (whose schema owns default value
  # objects) are rebuilt for every case.
  specs._CLASS_CACHE.clear()   # pylint: disable=protected-access
  if desc.get('t') not in ('list', 'dict', 'object'):
    raise core.InvalidCase(desc)
  partial = bool(case.get('partial'))
  try:
    # Optionally the (complete, non-partial) root is built inside an allow_partial(True) scope:
    # the scope must not leak into the object once it is left.
    with (pg.allow_partial(True) if case.get('scope_init') and not partial else contextlib.nullcontext()):
      root = _build_root(desc, specs.Choices(case.get('init', [0])), partial)
  except core.InvalidCase:
    raise
  except specs.SpecBuildError as e:
    return res.violate(str(e)[:1500], op='construct', rule='schema-construction-raises',
                       exc=type(e.__cause__).__name__)
  except REJECT as e:
    # The sampler and the library disagree on a value constructed as valid.
    return res.violate('constructing a sampled-valid initial value raised %r for spec %r' % (e, desc),
                       op='construct', rule='sampled-valid-rejected', exc=type(e).__name__)
  res.label('root:' + desc['t'], 'partial' if partial else 'complete')
  lenient = partial
  scope_used = bool(case.get('scope_init')) and not partial
  bad = _state_check(root, desc, lenient)
  if bad:
    return res.violate(bad[1], op='construct', rule=bad[0])
  def schema_text():
    """The schema the root is bound to, defaults included (it belongs to the class / spec, not to this value)."""
    owner = getattr(type(root), '__schema__', None) if isinstance(root, pg.Object) else getattr(root, 'value_spec', None)
    try:
      return repr(owner)
    except Exception as e:   # pylint: disable=broad-except
      return 'repr raised %r' % e
  schema_before = schema_text()
  n_rejected = 0
  n_struct_ok = 0
  for op in case['ops']:
    if not isinstance(op, dict) or op.get('op') not in ALL_OPS:
      raise core.InvalidCase(op)
    name = op['op']
    nodes = _typed_nodes(root)
    # resolve the target among nodes whose descriptor is known and of the right kind
    cands = []
    for nd in nodes:
      d = specs.spec_at(desc, nd.sym_path.keys)
      if d is None:
        continue
      kind = d['t']
      if name in LIST_OPS and kind == 'list' and isinstance(nd, pg.List):
        cands.append((nd, d))
      elif name in DICT_OPS and kind in ('dict', 'dict0') and isinstance(nd, pg.Dict):
        cands.append((nd, d))
      elif name in OBJ_OPS and kind == 'object' and isinstance(nd, pg.Object):
        cands.append((nd, d))
      elif name in ANY_OPS and kind in ('list', 'dict', 'object'):
        cands.append((nd, d))
    if not cands:
      continue
    n, nd = cands[op.get('t', 0) % len(cands)]
    ch = specs.Choices(op.get('c', [0]))
    i, j, s, m = op.get('i', 0), op.get('j'), op.get('s'), op.get('m', 0)
    k = op.get('k', 0)
    want_bad = bool(op.get('bad'))
    ap = op.get('ap')
    if ap is True:
      lenient = True
      scope_used = True

    def value_for(ld):
      """(value, verdict) for a location of descriptor ld."""
      if ld is None:
        return specs.sample({'t': 'any'}, ch), None
      if want_bad:
        ok, v = specs.near_miss(ld, ch)
        if ok:
          return v, specs.accepts(ld, v, partial=lenient)
      v = specs.sample(ld, ch)
      return v, specs.accepts(ld, v, partial=lenient)

    _plain_value_for = value_for

    def value_for(ld):   # pylint: disable=function-redefined
      """Sometimes hands the value over as a container that already carries its own, wider, spec."""
      v, verdict = _plain_value_for(ld)
      if (ld is not None and ld['t'] in ('list', 'dict') and ch.pick(2) == 0
          and not specs.any_frozen(ld)):   # is_compatible ignoring frozen is recorded under C04 (C04-K1)
        try:
          loose = specs.loosen(ld, ch.pick(3))
          plain = specs.sample({k: x for k, x in loose.items() if k != 'noneable'}, ch)
          wide = specs.to_spec(loose)
          typed = pg.List(plain, value_spec=wide) if isinstance(plain, list) else pg.Dict(plain, value_spec=wide)
          v, verdict = typed, specs.accepts(ld, plain, partial=lenient)
          res.label('pretyped-value')
        except (specs.SpecBuildError,) + REJECT:
          pass
      return v, verdict

    _unheld_value_for = value_for
    held = []

    def value_for(ld):   # pylint: disable=function-redefined
      """Sometimes the value is a container that already sits somewhere else (the library stores a copy of it)."""
      v, verdict = _unheld_value_for(ld)
      if isinstance(v, (pg.List, pg.Dict)) and v.sym_parent is None and ch.pick(2) == 0:
        # a typed container that already sits in another (non-partial) tree
        try:
          holder = pg.Dict(x=v)
        except REJECT:
          return v, verdict
        if holder.sym_getattr('x') is v:
          held.append((holder, v, _json(holder), (v.allow_partial, repr(v.value_spec))))
          res.label('held-typed-value')
          return v, verdict
      if type(v) in (list, dict) and ch.pick(3) == 0 and '__tuple__' not in json.dumps(pg.to_json(v), default=str):
        # (values with tuples are left out: what a tuple holds is not symbolic, a copy shares it with the original by
        # design, and the spec fills defaults into a plain dict in place)
        try:
          holder = pg.Dict(x=v)
        except REJECT:
          return v, verdict
        held.append((holder, holder.x, _json(holder), None))
        res.label('held-value')
        return holder.x, verdict
      return v, verdict

    _orig_value_for = value_for
    sample_err = []

    def value_for(ld):   # pylint: disable=function-redefined
      try:
        return _orig_value_for(ld)
      except REJECT as e:    # building a value sampled as valid failed inside the library
        sample_err.append((ld, e))
        return None, None

    wpaths = [n.sym_path.keys]   # locations this op may write
    # Values are built and the call is made inside the generated allow_partial scope.
    with (pg.allow_partial(ap) if ap is not None else contextlib.nullcontext()):
      single = None     # verdict of a single-location write
      plain_replace = False
      before = _json(root)
      call = None
      if name in LIST_OPS:
        ed = nd['elem']
        v, verdict = value_for(ed)
        L = len(n)
        if name == 'append':
          single = verdict
          call = lambda: n.append(v)
        elif name == 'insert':
          single = verdict
          call = lambda: n.insert(i, v)
        elif name == 'extend':
          vs = [v] + [specs.sample(ed, ch) for _ in range(m % 3)]
          call = lambda: n.extend(vs)
        elif name == 'pop':
          call = (lambda: n.pop()) if m == 0 else (lambda: n.pop(i))
        elif name == 'remove':
          call = lambda: n.remove(n[i % L]) if L else n.remove(v)
        elif name == 'delitem':
          call = lambda: n.__delitem__(i)
        elif name == 'delslice':
          call = lambda: n.__delitem__(slice(i, j, s))
        elif name == 'setitem':
          single = verdict
          plain_replace = -L <= i < L
          call = lambda: n.__setitem__(i, v)
        elif name == 'setslice':
          vs = [v] + [specs.sample(ed, ch) for _ in range(m % 3)]
          call = lambda: n.__setitem__(slice(i, j, s), vs)
        elif name == 'clear':
          call = n.clear
        elif name == 'iadd':
          vs = [v] + [specs.sample(ed, ch) for _ in range(m % 2)]
          call = lambda: n.__iadd__(vs)
        elif name == 'imul':
          call = lambda: n.__imul__(m % 3)
        elif name == 'sort':
          call = lambda: n.sort(key=repr)
        elif name == 'reverse':
          call = n.reverse
        elif name == 'rebind_l':
          idx = abs(i)
          if m % 3 == 0:
            single = verdict
            plain_replace = idx < L
            call = lambda: n.rebind({idx: v})
          elif m % 3 == 1:
            single = verdict
            call = lambda: n.rebind({idx: pg.Insertion(v)})
          elif m == 5 and L >= 2:
            # several deletions in one batch (each alone may be legal, together they may go below min_size)
            dels = {x % L: pg.MISSING_VALUE for x in (idx, idx + 1 + ch.pick(2), idx + 2 + ch.pick(3))}
            call = lambda: n.rebind(dels, raise_on_no_change=False)
          else:
            call = lambda: n.rebind({idx: pg.MISSING_VALUE}, raise_on_no_change=False)
      elif name in DICT_OPS:
        declared = [kk for kk, _ in nd.get('fields', [])] if nd['t'] == 'dict' else []
        pool = declared + ['u0', 'u1', 'zzz']
        if nd['t'] == 'dict0':
          pool = ['k', 'm', 'zzz']
        key = pool[k % len(pool)]
        ld = specs.spec_at(nd, [key]) if nd['t'] == 'dict' else {'t': 'any'}
        unknown_key = ld is None
        v, verdict = value_for(ld)
        if unknown_key:
          verdict = False        # an undeclared key must be refused
        if name == 'dsetitem':
          single = verdict
          plain_replace = not unknown_key
          call = lambda: n.__setitem__(key, v)
        elif name == 'dsetattr':
          single = verdict
          plain_replace = not unknown_key
          call = lambda: setattr(n, key, v)
        elif name == 'ddelitem':
          call = lambda: n.__delitem__(key)
        elif name == 'dpop':
          call = lambda: n.pop(key, None)
        elif name == 'popitem':
          call = n.popitem
        elif name == 'update':
          single = verdict
          call = lambda: n.update({key: v})
        elif name == 'setdefault':
          if key not in n or n.sym_getattr(key) == pg.MISSING_VALUE:
            single = verdict
          call = lambda: n.setdefault(key, v)
        elif name == 'dclear':
          call = n.clear
        elif name == 'ior':
          single = verdict
          call = lambda: n.__ior__({key: v})
        elif name == 'rebind_d':
          single = verdict
          plain_replace = not unknown_key
          call = lambda: n.rebind({key: v})
        elif name == 'setmissing':
          call = lambda: n.__setitem__(key, pg.MISSING_VALUE)
      elif name in OBJ_OPS:
        names = [kk for kk, _ in nd['fields']] + ['zzz']
        key = names[k % len(names)]
        ld = specs.spec_at(nd, [key])
        unknown_key = ld is None
        v, verdict = value_for(ld)
        if unknown_key:
          verdict = False
        if unknown_key and name == 'osetattr':
          continue   # sets a plain Python attribute, not a symbolic field
        if name == 'rebind_o':
          single = verdict
          plain_replace = not unknown_key
          call = lambda: n.rebind({key: v})
        elif name == 'osetattr':
          single = verdict
          call = lambda: setattr(n, key, v)
        else:
          if (ld is not None and not specs.has_default(ld) and ld['t'] not in ('dict', 'dict0', 'any')
              and ap is not True
              and not getattr(n, 'allow_partial', False) and not n.sym_partial):
            single = False     # a required field of a non-partial object cannot be unset
            v = pg.MISSING_VALUE
          call = lambda: n.rebind({key: pg.MISSING_VALUE}, raise_on_no_change=False)
      else:   # rebind_path from the root
        locs = []
        for x in nodes:
          for kk, _ in x.sym_items():
            p = x.sym_path.keys + [kk]
            ld = specs.spec_at(desc, p)
            if ld is not None:
              locs.append((p, ld))
        if not locs:
          continue
        p, ld = locs[i % len(locs)]
        wpaths.append(p)
        v, verdict = value_for(ld)
        if name == 'rebind_path' and m % 5 == 4 and isinstance(p[-1], int):
          # a list element deleted through a path from the root (no verdict of its own: the state laws decide)
          call = lambda: root.rebind({pg.KeyPath(p): pg.MISSING_VALUE})
        elif name == 'rebind_path':
          single = verdict
          plain_replace = True
          call = lambda: root.rebind({pg.KeyPath(p): v})
        else:
          # a batch over several locations mixing valid writes, deletions and near-misses
          upd = {pg.KeyPath(p): v}
          for _ in range(1 + ch.pick(2)):
            p2, ld2 = locs[ch.pick(len(locs))]
            wpaths.append(p2)
            mode = ch.pick(3)
            if mode == 1:
              v2 = pg.MISSING_VALUE
            elif mode == 2:
              ok2, v2 = specs.near_miss(ld2, ch)
              if not ok2:
                v2 = specs.sample(ld2, ch)
            else:
              v2 = specs.sample(ld2, ch)
            upd.setdefault(pg.KeyPath(p2), v2)
          call = lambda: root.rebind(upd)
      if sample_err:
        return res.violate('building a value sampled as valid for %r raised %r' % sample_err[0],
                           op=name, rule='sampled-valid-rejected', exc=type(sample_err[0][1]).__name__)
      if call is None:
        continue
      exc = None
      try:
        with pg.notify_on_change(not op.get('nf')):
          if ap is None:
            call()
          else:
            with pg.allow_partial(ap):
              call()
      except RecursionError:
        raise
      except Exception as e:   # pylint: disable=broad-except
        exc = e
    # a rejected single write is rejected again when the very same call is repeated (with the same value object)
    if exc is not None and isinstance(exc, REJECT) and single is False and call is not None:
      try:
        with pg.notify_on_change(not op.get('nf')):
          if ap is None:
            call()
          else:
            with pg.allow_partial(ap):
              call()
        retry_exc = None
      except RecursionError:
        raise
      except Exception as e2:   # pylint: disable=broad-except
        retry_exc = e2
      if retry_exc is None:
        return res.violate('invalid value %s was rejected with %r, and accepted when the same call was repeated (state now %s) | spec=%r op=%r' % (
            _r(v), exc, _r(root), specs.spec_at(desc, n.sym_path.keys), {kk: vv for kk, vv in op.items() if vv not in (None, False)}),
                           op=name, rule='accepted-on-retry', kind=nd['t'])
    res.label('op:' + name, 'raised:' + type(exc).__name__ if exc else 'returned')
    after = _json(root)
    sigx = {'kind': nd['t']}
    if scope_used:
      sigx['partial_scope_used'] = '1'
    # Is the target held (directly or indirectly) by a frozen field?
    if any(specs.is_frozen(specs.spec_at(desc, tkeys[:q]) or {})
           for tkeys in wpaths for q in range(len(tkeys) + 1)):
      sigx['frozen_target'] = '1'
      res.label('frozen-target')
    if op.get('nf'):
      sigx['nf'] = '1'
    if ap is not None:
      sigx['ap'] = str(ap)
    what = 'spec=%r op=%r' % (specs.spec_at(desc, n.sym_path.keys), {kk: vv for kk, vv in op.items() if vv not in (None, False)})
    if single is False:
      res.label('invalid-write')
      if exc is None:
        return res.violate('invalid value %s was accepted (state now %s) | %s' % (_r(v), _r(root), what),
                           op=name, rule='accepted-invalid-write', **sigx)
      n_rejected += 1
    atomic = name in ('clear', 'dclear', 'popitem', 'dpop', 'ddelitem', 'pop', 'remove', 'delitem', 'delslice', 'sort', 'reverse',
                      'setdefault', 'imul')
    if exc is not None and (single is not None or atomic) and before != after:
      return res.violate('write raised %r but the tree changed: %s -> %s | %s' % (exc, before, after, what),
                         op=name, rule='failed-write-changed-state', exc=type(exc).__name__, **sigx)
    if exc is not None and not isinstance(exc, REJECT + (IndexError, pg.WritePermissionError, AttributeError)):
      return res.violate('write raised unexpected %r | %s' % (exc, what), op=name, rule='unexpected-exception',
                         exc=type(exc).__name__, **sigx)
    if (single is True and plain_replace and isinstance(exc, (TypeError, ValueError))
        and type(v) in (bool, int, float, str) and ap is None):
      return res.violate('valid primitive %s rejected with %r | %s' % (_r(v), exc, what),
                         op=name, rule='rejected-valid-write', **sigx)
    # a value that stays where it was (the library stores a copy) is not touched by the write, accepted or not
    for holder, orig, snap, typed_state in held:
      now = holder.sym_getattr('x', None)
      problem = None
      if now is not orig or orig.sym_parent is not holder:
        problem = 'it is no longer held by its owner'
      elif typed_state is not None and (orig.allow_partial, repr(orig.value_spec)) != typed_state:
        problem = 'its (allow_partial, value spec) changed from %r to %r' % (typed_state, (orig.allow_partial, repr(orig.value_spec)))
      elif typed_state is None and getattr(orig, 'value_spec', None) is not None:
        problem = 'it now carries the value spec %r of the place it was written to' % (orig.value_spec,)
      elif _json(holder) != snap:
        problem = 'its content changed from %s to %s' % (snap, _json(holder))
      if problem:
        return res.violate('the written value was a container owned by another tree; after the write (%s) %s | %s' % (
            'rejected with %r' % exc if exc else 'accepted', problem, what), op=name, rule='source-value-modified',
                           outcome='rejected' if exc else 'accepted', **sigx)
    if exc is None and name in STRUCT:
      n_struct_ok += 1
    if schema_text() != schema_before:
      return res.violate('the operation changed the schema itself (a default value object of the schema was handed out and '
                         'mutated): %s -> %s | %s' % (schema_before[:600], schema_text()[:600], what),
                         op=name, rule='schema-modified', **sigx)
    bad = _state_check(root, desc, lenient)
    if bad:
      return res.violate('%s | after %s | %s' % (bad[1], 'exception %r' % exc if exc else 'normal return', what),
                         op=name, rule=bad[0], after='exc' if exc else 'ok', **sigx)
  if n_rejected >= 1 and n_struct_ok >= 1:
    res.nontrivial = True
  return res
