"""C01 — symbolic tree integrity: one parent, true path, for every reachable node."""
import pyglove as pg
from hypothesis import strategies as st

from pgverif import core
from pgverif.gen import treeops
from pgverif.gen import values

ID = 'C01'
RULE = ('history over a forest of 1-3 Dict/List/Object trees drawn from the full '
        'mutating/copying op surface; invariant walk after every step. '
        'Non-trivial: >=1 structural op (insert/delete/move/reorder/slice/rebind) '
        'applied (not skipped) to a container that holds >=1 symbolic child while '
        'the container sits at depth>=1 or holds a grandchild; distinct = distinct case JSON')
ASSUMPTIONS = [
    'nodes reachable only through pg.Ref are not children (excluded)',
    'inserting a parent-less root into its own subtree is excluded by construction',
    'integrity is also asserted after calls that raised (a failed call must not corrupt the tree)',
]
BUDGET = {'quick': 4000, 'thorough': 120000}


def strategy(tier):
  max_ops = 25 if tier == 'quick' else 40
  roots = st.lists(values.container_desc(max_leaves=12, typed=True), min_size=1, max_size=3)
  return st.fixed_dictionaries({
      'roots': roots,
      'ops': st.lists(treeops.op_strategy(), min_size=1, max_size=max_ops),
  })


EXHAUSTIVE_DOMAINS = {
    'list_batches': 'one rebind batch on a list of 4 symbolic children: every combination of 1-3 entries, each an index 0..4 x '
                    '{replace, insert, delete}, with notification on and off (quick: <=2 entries)',
    'typed_dict_calls': 'every dict call (11) x target node 1..7 x key 0..2 x {scalar, container value} x notification on/off x mode 0..1 '
                        'on two trees whose dict-typed object fields (value spec with free keys) hold containers',
}


def exhaustive(tier):
  import itertools
  item = {'$d': [['n', 9]]}
  root = [{'$d': [['k', i], ['c', [i]]]} for i in range(4)]
  entries = [(i, m) for i in range(5) for m in range(3)]

  def gen():
    for n_extra in ((0, 1) if tier == 'quick' else (0, 1, 2)):
      for first in entries:
        for extra in itertools.product(entries, repeat=n_extra):
          for nf in (False, True):
            yield {'roots': [root], 'ops': [{
                'op': 'rebind_l', 't': 0, 'i': first[0], 'k': first[1], 'm': 5, 'j': None, 's': None, 'v': item, 'src': None,
                'sv': True, 'nf': nf, 'own': False, 'mv': False,
                'locs': [{'i': e[0], 'm': e[1], 'v': item} for e in extra]}]}
  def typed_dict_calls():
    # every dict call on dict-typed fields of objects (a value spec with free keys / defaults) that hold containers
    roots = [
        {'$o': 'DK', 'a': {'m': {'$d': [['k', {'$d': [['k', [1]]]}], ['j', [2]]]}, 's': {'$d': [['q', [2]], ['r', {'$d': [['a', 1]]}]]}}},
        {'$o': 'P', 'a': {'x': {'$o': 'DK', 'a': {'m': {'$d': [['a', [1]]]}}}, 'y': {'$d': [['k', {'$d': [['m', [1]]]}]]}}},
    ]
    for root in roots:
      for name in treeops.DICT_OPS:
        for t, k, v, nf, m in itertools.product(range(1, 8), range(3), (7, [{'$d': [['n', 9]]}]), (False, True), (0, 1)):
          yield {'roots': [root], 'ops': [{'op': name, 't': t, 'i': 0, 'j': None, 's': None, 'k': k, 'v': v, 'src': None,
                                           'sv': True, 'nf': nf, 'm': m, 'own': False, 'mv': False, 'locs': []}]}
  return {'list_batches': gen(), 'typed_dict_calls': typed_dict_calls()}


def walk_check(roots):
  """Returns (inv, detail) for the first broken invariant, or None."""
  seen = {}
  for ri, root in enumerate(roots):
    if root.sym_parent is not None:
      return 'root-parent', 'root %d has a parent' % ri
    if not root.sym_path.is_root:
      return 'root-path', 'root %d has path %r' % (ri, str(root.sym_path))
    stack = [root]
    if id(root) in seen:
      return 'dup', 'root %d appears twice' % ri
    seen[id(root)] = root
    while stack:
      n = stack.pop()
      for k, v in n.sym_items():
        if isinstance(v, pg.Symbolic):
          where = '%s child %r of %s at %r' % (
              type(v).__name__, k, type(n).__name__, str(n.sym_path))
          if id(v) in seen:
            return 'dup', 'node stored twice: ' + where
          seen[id(v)] = v
          if v.sym_parent is not n:
            return 'parent', where + ' reports parent %s' % (
                type(v.sym_parent).__name__)
          if v.sym_path.keys != n.sym_path.keys + [k]:
            return 'path', where + ' reports path %r' % str(v.sym_path)
          try:
            got = root.sym_get(v.sym_path)
          except Exception as e:   # pylint: disable=broad-except
            return 'lookup', where + ' lookup raised %s' % type(e).__name__
          if got is not v:
            return 'lookup', where + ' lookup returns another object'
          if v.sym_root is not root:
            return 'root', where + ' reports another root'
          stack.append(v)
        elif isinstance(n, pg.List) and pg.MISSING_VALUE == v:
          return 'placeholder', 'deletion placeholder left at index %r of the list at %r' % (k, str(n.sym_path))
        elif isinstance(v, (list, dict)):
          return 'plain-container', 'plain %s stored under %r of %s at %r' % (
              type(v).__name__, k, type(n).__name__, str(n.sym_path))
  return None, seen


def execute(case):
  res = core.Result()
  if not isinstance(case, dict) or not isinstance(case.get('roots'), list) \
      or not isinstance(case.get('ops'), list):
    raise core.InvalidCase(case)
  roots = []
  for d in case['roots']:
    v = values.build(d, symbolic=True)
    if not isinstance(v, pg.Symbolic):
      raise core.InvalidCase(d)
    roots.append(v)
  if not roots:
    raise core.InvalidCase(case)
  inv, seen = walk_check(roots)
  if inv is not None:
    return res.violate(seen, op='construct', inv=inv)
  graveyard = {}
  for op in case['ops']:
    before = seen
    n_nodes = len(before)
    out = treeops.apply_op(roots, op)
    if out.status == 'skip':
      continue
    name = out.name
    res.label('op:' + name, 'status:' + out.status)
    if out.status == 'exc':
      res.label('exc:' + type(out.exc).__name__)
    if op.get('nf'):
      res.label('notify-off')
    if out.used_src:
      res.label('move')
    tgt = out.target
    if name in treeops.STRUCTURAL and out.status == 'ok' and tgt is not None:
      has_sym_child, deep = out.pre_sym_child, out.pre_deep
      if has_sym_child and deep:
        res.nontrivial = True
    inv, seen_or_detail = walk_check(roots)
    sigextra = {}
    if op.get('nf'):
      sigextra['nf'] = '1'
    if out.status == 'exc':
      sigextra['after'] = 'exc:' + type(out.exc).__name__
    if inv is not None:
      return res.violate(
          '%s | op=%s' % (seen_or_detail, treeops.describe(op)),
          op=name, inv=inv, **sigextra)
    seen = seen_or_detail
    # Removed / replaced nodes must not claim a parent that is still in a tree.
    for nid, node in before.items():
      if nid not in seen:
        graveyard[nid] = node
    for nid in list(graveyard):
      if nid in seen:
        del graveyard[nid]
    for nid, node in graveyard.items():
      p = node.sym_parent
      if p is not None and id(p) in seen:
        return res.violate(
            'removed %s still reports parent %s at %r | op=%s' % (
                type(node).__name__, type(p).__name__, str(p.sym_path),
                treeops.describe(op)),
            op=name, inv='dangling-parent', **sigextra)
    del n_nodes
  res.label('roots:%d' % len(roots))
  return res
