"""C07 — clone fidelity and independence."""
import copy

import pyglove as pg
from hypothesis import strategies as st

from pgverif import core
from pgverif.gen import classes
from pgverif.gen import treeops
from pgverif.gen import values
from pgverif.props import c01

ID = 'C07'
RULE = ('a tree of Dict/List/Object nodes (typed and untyped classes, tuples, opaque non-symbolic leaves, '
        'pg.Ref leaves to symbolic and plain targets, hyper placeholders, DNA, partial objects, functors with unspecified '
        'defaulted arguments) with per-node '
        'flags (sealed, accessor_writable, allow_partial) set by generated prefix ops; one of clone(deep), '
        'clone(shallow), copy.copy, copy.deepcopy, clone(override); then a mutation history applied to either '
        'side. Checked: eq, class, value spec, flags node by node, well-formedness of the clone, original '
        'untouched by cloning, node identity disjoint (Ref targets shared, leaves shared only by shallow), and '
        'after every later mutation the other side is unchanged. Non-trivial: depth>=2 with >=1 typed node or '
        'non-default flag, and >=1 effective post-clone mutation at depth>=2; distinct = distinct case JSON')
ASSUMPTIONS = [
    'values held through pg.Ref are deliberately shared by every kind of clone',
    'onchange callbacks are not listed among the behavioural flags and are not compared',
    'a shallow clone shares non-symbolic leaves by identity',
    'flags are compared node by node for sealed / accessor_writable on trees without mixed sealing (no unsealed node under a sealed one) and outside DNA / hyper internals; allow_partial is compared on the cloned value itself',
]
BUDGET = {'quick': 4000, 'thorough': 100000}
MODES = ['deep', 'shallow', 'copy', 'deepcopy', 'override']
PRE_OPS = ['seal', 'unseal', 'aw_off', 'aw_on', 'refto', 'dnabound']
POST_OPS = treeops.LIST_OPS + treeops.DICT_OPS + treeops.OBJ_OPS + ['rebind_path', 'rebind_multi',
                                                                    'unseal', 'aw_on', 'opaque']


def strategy(tier):
  n = 10 if tier == 'quick' else 20
  val = values.vdesc(max_leaves=6, opaque=True, tuples=True, typed=True, extras=True, functors=True)
  post = st.one_of(
      treeops.op_strategy(ops=treeops.LIST_OPS + treeops.DICT_OPS + treeops.OBJ_OPS + ['rebind_path', 'rebind_multi'],
                          value=values.vdesc(max_leaves=4, opaque=True)),
      st.fixed_dictionaries({'op': st.sampled_from(['unseal', 'aw_on', 'opaque']), 't': st.integers(0, 40),
                             'i': st.integers(0, 5)}))
  return st.fixed_dictionaries({
      'root': values.container_desc(max_leaves=14, opaque=True, tuples=True, typed=True, extras=True, functors=True),
      'pre': st.lists(st.fixed_dictionaries({'op': st.sampled_from(PRE_OPS), 't': st.integers(0, 40)}), max_size=3),
      'mode': st.sampled_from(MODES),
      'ov': st.tuples(st.integers(0, 30), val).map(list),
      'ops': st.lists(st.tuples(st.integers(0, 1), post).map(list), max_size=n),
  })


def snapshot(v, depth=0):
  """Structural snapshot through the storage API (opaque leaves by content, refs by target identity)."""
  if isinstance(v, pg.Ref):
    return ('ref', id(v.value))
  if isinstance(v, pg.Symbolic):
    items = [(k, snapshot(x, depth + 1)) for k, x in v.sym_items()]
    return (type(v).__name__, tuple(items))
  if isinstance(v, classes.Opaque):
    return ('opaque', v.v)
  if isinstance(v, tuple):
    return ('tuple', tuple(snapshot(x, depth + 1) for x in v))
  if isinstance(v, (list, dict)):
    return ('plain', repr(v))
  return ('leaf', type(v).__name__, repr(v))


def flags_of(n):
  return (bool(n.sym_sealed), bool(n.allow_partial), bool(getattr(n, 'accessor_writable', True)))


def pairs(a, b, path=()):
  """Parallel walk of two trees: yields (path, node_a, node_b)."""
  yield path, a, b
  if isinstance(a, pg.Ref) or isinstance(b, pg.Ref):
    return
  if isinstance(a, pg.Symbolic) and isinstance(b, pg.Symbolic) and type(a) is type(b):
    ia, ib = dict(a.sym_items()), dict(b.sym_items())
    for k in ia:
      if k in ib:
        yield from pairs(ia[k], ib[k], path + (k,))
  elif isinstance(a, tuple) and isinstance(b, tuple) and len(a) == len(b):
    for i, (x, y) in enumerate(zip(a, b)):
      yield from pairs(x, y, path + ('(%d)' % i,))


def _depth(root):
  best = 0
  stack = [(root, 0)]
  while stack:
    n, d = stack.pop()
    best = max(best, d)
    for _, v in n.sym_items():
      if isinstance(v, pg.Symbolic) and not isinstance(v, pg.Ref):
        stack.append((v, d + 1))
  return best


def _inside_internal(n):
  """Is n a DNA / hyper placeholder or part of its internal structure (not a user-level container)?"""
  p = n
  while p is not None:
    if isinstance(p, (pg.DNA, pg.hyper.HyperPrimitive)):
      return True
    p = p.sym_parent
  return False


def _seal_consistent(root):
  """No unsealed node below a sealed one (the state seal()/seal(False) on a subtree produces)."""
  for n in treeops.preorder(root):
    if isinstance(n, pg.Ref):
      continue
    p = n.sym_parent
    if p is not None and p.sym_sealed and not n.sym_sealed:
      return False
  return True


def _apply_flag_op(root, op):
  nodes = [n for n in treeops.preorder(root) if not isinstance(n, pg.Ref) and not _inside_internal(n)]
  n = nodes[op.get('t', 0) % len(nodes)]
  name = op['op']
  try:
    if name == 'refto':
      # a reference whose target is also held by a non-symbolic leaf stored in front of it
      # (references to nodes of the same tree are refused by the library)
      holders = [h for h in nodes if isinstance(h, pg.Dict) and getattr(h, 'value_spec', None) is None]
      if holders:
        h = holders[op.get('t', 0) % len(holders)]
        target = pg.Dict(k=[1, 2])
        h['zbox'] = classes.Opaque(target)
        h['zref'] = pg.Ref(target)
      return n
    if name == 'dnabound':
      spec = pg.dna_spec(pg.Dict(x=pg.oneof([1, 2, 3], name='x'), y=pg.manyof(2, [1, 2, 3], name='y')))
      dna = pg.DNA.from_numbers([1, 0, 2], spec)
      _ = dna['x'], dna['y'], dna.named_decisions     # (lookup tables are built lazily)
      holders = [h for h in nodes if isinstance(h, pg.Dict) and getattr(h, 'value_spec', None) is None]
      if holders:
        holders[op.get('t', 0) % len(holders)]['zdna'] = dna
      return n
    if name == 'seal':
      n.seal()
    elif name == 'unseal':
      n.seal(False)
    elif name == 'aw_off':
      if hasattr(n, 'set_accessor_writable'):
        n.set_accessor_writable(False)
    elif name == 'aw_on':
      if hasattr(n, 'set_accessor_writable'):
        n.set_accessor_writable(True)
  except pg.WritePermissionError:
    pass
  return n


def _opaques(root):
  out = []

  def walk(v):
    if isinstance(v, pg.Ref):
      return
    if isinstance(v, pg.Symbolic):
      for _, x in v.sym_items():
        walk(x)
    elif isinstance(v, tuple):
      for x in v:
        walk(x)
    elif isinstance(v, classes.Opaque):
      out.append(v)
  walk(root)
  return out


def execute(case):
  res = core.Result()
  if not isinstance(case, dict) or case.get('mode') not in MODES:
    raise core.InvalidCase(case)
  root = values.build(case.get('root'), symbolic=True)
  if not isinstance(root, pg.Symbolic) or isinstance(root, pg.Ref):
    raise core.InvalidCase(case)
  flagged = False
  for op in case.get('pre', []):
    if not isinstance(op, dict) or op.get('op') not in PRE_OPS:
      raise core.InvalidCase(op)
    _apply_flag_op(root, op)
  mode = case['mode']
  res.label('mode:' + mode)
  before = snapshot(root)
  flags_before = [(p, flags_of(a)) for p, a, _ in pairs(root, root) if isinstance(a, pg.Symbolic)]
  flagged = any(f != (False, False, True) for _, f in flags_before)
  override = None
  try:
    if mode == 'deep':
      twin = root.clone(deep=True)
    elif mode == 'shallow':
      twin = root.clone(deep=False)
    elif mode == 'copy':
      twin = copy.copy(root)
    elif mode == 'deepcopy':
      twin = copy.deepcopy(root)
    else:
      # (not the members of a placeholder or of a DNA: those are their internals - a OneOf with num_choices=0 is
      # not a value a caller may ask for - and the library is free to refuse such a write any way it likes)
      locs = [pg.KeyPath(k, n.sym_path) for n in treeops.preorder(root)
              if not isinstance(n, (pg.Ref, pg.hyper.HyperPrimitive, pg.DNA)) and not _inside_internal(n)
              for k, _ in n.sym_items()]
      ov = case.get('ov', [0, 0])
      if not locs or not isinstance(ov, list) or len(ov) != 2 or isinstance(ov[0], bool) or not isinstance(ov[0], int):
        twin = root.clone(deep=True)
        mode = 'deep'
      else:
        override = {str(locs[ov[0] % len(locs)]): values.build(ov[1])}
        try:
          twin = root.clone(deep=True, override=override)
        except (TypeError, ValueError, KeyError, pg.WritePermissionError):
          twin = root.clone(deep=True)
          mode = 'deep'
          override = None
  except RecursionError:
    raise
  except Exception as e:   # pylint: disable=broad-except
    return res.violate('%s of %r raised %r' % (mode, root, e), law='clone-raises', mode=mode, exc=type(e).__name__)
  deep = mode in ('deep', 'deepcopy', 'override')
  if snapshot(root) != before:
    return res.violate('cloning modified the original', law='clone-mutates-original', mode=mode)
  if override is None:
    try:
      same = pg.eq(root, twin) and pg.eq(twin, root)
    except Exception as e:   # pylint: disable=broad-except
      return res.violate('pg.eq(original, clone) raised %r' % e, law='eq-raises', mode=mode)
    if not same or snapshot(twin) != before:
      return res.violate('clone %r is not equal to original %r' % (twin, root), law='clone-not-equal', mode=mode)
  if type(twin) is not type(root):
    return res.violate('clone is a %s, original a %s' % (type(twin).__name__, type(root).__name__),
                       law='clone-class', mode=mode)
  inv, detail = c01.walk_check([twin])
  if inv is not None:
    return res.violate('clone is not a well-formed tree: %s' % detail, law='clone-malformed', inv=inv, mode=mode)
  typed = False
  consistent = _seal_consistent(root)
  res.label('seal-consistent' if consistent else 'seal-mixed')
  for path, a, b in pairs(root, twin):
    where = '/'.join(map(str, path))
    if override is not None and any(str(pg.KeyPath(list(path)[:q])) in override for q in range(len(path) + 1)):
      continue
    if isinstance(a, pg.Ref):
      if not (isinstance(b, pg.Ref) and a.value is b.value):
        return res.violate('Ref at %s does not share its target after %s' % (where, mode), law='ref-not-shared', mode=mode)
      continue
    if isinstance(a, pg.DNA) and isinstance(b, pg.DNA) and b.spec is not None and b is not a:
      # lookups on the clone must hand out nodes of the clone
      for key in ('x', 'y'):
        try:
          got = b[key]
        except Exception:   # pylint: disable=broad-except
          continue
        for node in (got if isinstance(got, list) else [got]):
          if isinstance(node, pg.DNA) and node.sym_root is not b.sym_root:
            return res.violate('lookup %r on the %s clone of a DNA returns a node of another tree (the original)' % (key, mode),
                               law='lookup-leaves-clone', mode=mode)
    if isinstance(a, pg.Symbolic):
      if type(a) is not type(b):
        return res.violate('node at %s: class %s vs %s' % (where, type(a).__name__, type(b).__name__),
                           law='node-class', mode=mode)
      if a is b:
        return res.violate('symbolic %s at %s is shared between original and %s clone' % (type(a).__name__, where, mode),
                           law='node-shared', mode=mode, kind=type(a).__name__)
      fa, fb = flags_of(a), flags_of(b)
      if not consistent and path:
        # mixed sealing (an unsealed node under a sealed one): only the root flags are compared
        fa, fb = (fb[0],) + fa[1:], fb
      if _inside_internal(a):
        fa = fb
      if path:
        # allow_partial is compared for the cloned value itself; nested containers passed in as
        # pre-built symbolic values may keep a flag that differs from their (partial) parent, and
        # cloning normalises it to the parent's - not an observable loss (see DESIGN C07).
        fa = (fa[0], fb[1], fa[2])
      if fa != fb:
        names = ['sealed', 'allow_partial', 'accessor_writable']
        diff = [nm for nm, x, y in zip(names, fa, fb) if x != y]
        return res.violate('flags of %s at %s: original %r, %s clone %r (sealed, allow_partial, accessor_writable)' % (
            type(a).__name__, where, fa, mode, fb), law='flags', flag=','.join(diff), kind=type(a).__name__, mode=mode)
      if isinstance(a, pg.Functor):
        # which arguments a functor counts as given by the user is part of what it is (it decides what can be bound
        # later and what is written to JSON)
        ba = (sorted(a.specified_args), sorted(a.non_default_args), sorted(a.default_args))
        bb = (sorted(b.specified_args), sorted(b.non_default_args), sorted(b.default_args))
        if ba != bb and mode != 'override':     # (an override may bind an argument of the functor in the clone)
          return res.violate('functor at %s: (specified, non-default, default) arguments %r, %s clone %r' % (where, ba, mode, bb),
                             law='functor-bookkeeping', mode=mode)
      sa = getattr(a, 'value_spec', None)
      sb = getattr(b, 'value_spec', None)
      if (sa is None) != (sb is None) or (sa is not None and sa != sb):
        return res.violate('value spec of %s at %s differs after %s: %r vs %r' % (type(a).__name__, where, mode, sa, sb),
                           law='value-spec', kind=type(a).__name__, mode=mode)
      if sa is not None or isinstance(a, (classes.Typed, classes.Req)):
        typed = True
    elif isinstance(a, classes.Opaque):
      if deep and a is b:
        return res.violate('non-symbolic leaf at %s is shared by a deep clone' % where, law='leaf-shared-by-deep', mode=mode)
      if not deep and a is not b:
        return res.violate('non-symbolic leaf at %s is copied by a shallow clone' % where, law='leaf-copied-by-shallow', mode=mode)
  # ---- later mutations of one side must not show through the other
  sides = [root, twin]
  n_effective = 0
  for item in case.get('ops', []):
    if not (isinstance(item, list) and len(item) == 2 and item[0] in (0, 1) and isinstance(item[1], dict)):
      raise core.InvalidCase(item)
    side, op = item
    other = 1 - side
    snap_other = snapshot(sides[other])
    snap_self = snapshot(sides[side])
    name = op.get('op')
    deep_target = False
    if name in ('unseal', 'aw_on'):
      _apply_flag_op(sides[side], op)
    elif name == 'opaque':
      ops_ = [x for x in _opaques(sides[side]) if isinstance(x.v, int)]
      if ops_:
        ops_[op.get('i', 0) % len(ops_)].v += 10
    else:
      holder = [sides[side]]
      out = treeops.apply_op(holder, op, allow_move=False)
      sides[side] = holder[0]
      if out.target is not None and out.target.sym_path.depth >= 1:
        deep_target = True
    changed = snapshot(sides[side]) != snap_self
    res.label('post:' + str(name))
    if changed and (deep_target or name == 'opaque'):
      n_effective += 1
    if snapshot(sides[other]) != snap_other:
      if name == 'opaque' and not deep:
        res.label('shallow-shares-leaf')
        continue     # shared leaves are what a shallow clone promises
      return res.violate('mutating the %s through %r changed the %s (%s clone)' % (
          'original' if side == 0 else 'clone', treeops.describe(op), 'clone' if side == 0 else 'original', mode),
                         law='interference', mode=mode, op=str(name))
  if _depth(root) >= 2 and (typed or flagged) and n_effective >= 1:
    res.nontrivial = True
  return res
