"""C11 — search-space enumeration is exact: every valid DNA once, nothing else."""
import itertools
import math
import random

import pyglove as pg
from hypothesis import strategies as st

from pgverif import core
from pgverif.gen import genospec

ID = 'C11'
RULE = ('a DNASpec shape (spaces, single/multi choices in every distinct x sorted mode, conditional sub-spaces; '
        'floats/custom points for the sampler half) compared with a brute-force reference written from the '
        'definition: iter_dna yields space_size DNAs, strictly increasing, pairwise distinct, no successor after '
        'the last, first_dna is the first, and their flat numbers are exactly the reference set; from_numbers / '
        'validate accept exactly the members among {members + one-step corruptions}; random_dna is a member for '
        'generated seeds; Sweeping proposes the same sequence. Non-trivial: the spec has a multi-choice with k>=2 '
        'or a conditional sub-space. All shapes with <=2 decision points (k<=3, <=3 candidates) are enumerated in '
        'every run (thorough: a slice of the <=3 decision point domain)')
ASSUMPTIONS = [
    'float and custom decision points have no finite enumeration: only the sampler / validator half is checked for them',
    'the reference enumerator shares no code with the library (itertools product filtered by distinct / sorted)',
    'iter_dna costs ~1 ms per DNA: finite spaces are bounded to <=400 members',
    'bool indices are not used as corruptions: True == 1 in Python, so DNA(True) equals the member DNA(1)',
]
BUDGET = {'quick': 200, 'thorough': 16000}
EXHAUSTIVE_DOMAINS = {
    'shapes2': 'all shapes with <=2 decision points, k<=3, <=3 candidates, sub-space at first or last candidate, reference size<=24 (thorough: <=80)',
    'float_ranges': 'float decision points over 10 lower bounds x widths {0, 1 ulp, 0.5, 3} x scales {None, linear, log, rlog}, alone and under a 2-of multi-choice (sampler half)',
    'shapes3': 'thorough only: every 9th shape with <=3 decision points and reference size<=80',
}


def strategy(tier):
  shape = genospec.shape_strategy(max_depth=2, floats=True, custom=False, names=False)
  return st.fixed_dictionaries({
      'shape': shape,
      'seeds': st.lists(st.integers(0, 10 ** 6), min_size=1, max_size=4),
      'corrupt': st.lists(st.tuples(st.integers(0, 50), st.integers(0, 20), st.sampled_from(
          ['+1', '-1', 'neg', 'n', 'swap', 'dup', 'drop', 'extra', 'wrap', 'value', 'float', 'str', 'none'])).map(list), max_size=6),
  })


def exhaustive(tier):
  limit = 24 if tier == 'quick' else 80

  def wrap(it, step=1):
    for i, s in enumerate(it):
      if i % step:
        continue
      if genospec.size(s, 400) <= limit:
        yield {'shape': s, 'seeds': [1, 2], 'corrupt': 'all'}
  def float_ranges():
    for lo in (0.1, 0.3, 3.0, 1e-3, 10.0, 7.0, 0.5, 1.0, -0.7, 0.0):
      for w in (0, 'ulp', 0.5, 3):
        hi = lo if w == 0 else (math.nextafter(lo, math.inf) if w == 'ulp' else lo + w)
        for scale in (None, 'linear', 'log', 'rlog'):
          if scale in ('log', 'rlog') and lo <= 0:
            continue
          f = {'t': 'float', 'lo': lo, 'hi': hi}
          if scale:
            f['scale'] = scale
          yield {'shape': {'t': 'space', 'e': [f]}, 'seeds': [1, 2, 3], 'corrupt': []}
          yield {'shape': {'t': 'space', 'e': [{'t': 'choices', 'k': 2, 'distinct': False, 'sorted': False, 'c': [
              {'t': 'space', 'e': [f]}, {'t': 'space', 'e': []}]}]}, 'seeds': [1, 2, 3, 4], 'corrupt': []}
  out = {'shapes2': wrap(genospec.enumerate_shapes(2)), 'float_ranges': float_ranges()}
  if tier == 'thorough':
    out['shapes3'] = wrap(genospec.enumerate_shapes(3), 9)
  return out


def _walk_floats(shape, dna):
  """First (value, lo, hi, scale) of a float decision outside its range; 'mismatch' if the DNA has another layout."""
  def dp(e, d, subs=None):
    if e['t'] == 'float':
      v = d.value
      if isinstance(v, bool) or not isinstance(v, float) or not e['lo'] <= v <= e['hi']:
        return (v, e['lo'], e['hi'], e.get('scale'))
      return None
    if e['t'] != 'choices':
      return None
    if subs is None:
      subs = [d] if e['k'] == 1 else list(d.children)
    if len(subs) != e['k']:
      return 'mismatch'
    for sub in subs:
      if isinstance(sub.value, bool) or not isinstance(sub.value, int) or not 0 <= sub.value < len(e['c']):
        return 'mismatch'
      r = space(e['c'][sub.value], list(sub.children))
      if r:
        return r
    return None

  def space(s, ds):
    if len(s['e']) == 1 and s['e'][0]['t'] == 'choices' and s['e'][0]['k'] >= 2 and len(ds) == s['e'][0]['k']:
      # a sub-space that is one multi-choice: its sub-choices hang directly under the parent decision
      return dp(s['e'][0], None, ds)
    if len(ds) != len(s['e']):
      return 'mismatch'
    for e, d in zip(s['e'], ds):
      r = dp(e, d)
      if r:
        return r
    return None
  if len(shape['e']) == 1:
    return dp(shape['e'][0], dna)
  return space(shape, list(dna.children))


def _corruptions(member, how, pos, arg, n_at):
  """One-step corruption of a flat-number tuple."""
  m = list(member)
  if not m and how not in ('extra',):
    return None
  i = pos % len(m) if m else 0
  if how == '+1':
    m[i] = m[i] + 1
  elif how == '-1':
    m[i] = m[i] - 1
  elif how == 'neg':
    m[i] = -1 - (arg % 2)
  elif how == 'n':
    m[i] = n_at(i)
  elif how == 'swap':
    j = (i + 1 + arg) % len(m)
    m[i], m[j] = m[j], m[i]
  elif how == 'dup':
    j = (i + 1 + arg) % len(m)
    m[j] = m[i]
  elif how == 'drop':
    del m[i]
  elif how in ('extra', 'wrap', 'value'):
    m.insert(i, arg % 3)      # ('wrap' / 'value' act on the tree, see route 3; the flat route sees an extra number)
  elif how == 'float':
    m[i] = float(m[i]) + 0.5
  elif how == 'bool':
    m[i] = bool(m[i] % 2)
  elif how == 'str':
    m[i] = str(m[i])
  elif how == 'none':
    m[i] = None
  return m


def execute(case):
  res = core.Result()
  if not isinstance(case, dict) or not isinstance(case.get('shape'), dict):
    raise core.InvalidCase(case)
  shape = case['shape']
  genospec.validate(shape)
  if shape['t'] != 'space':
    raise core.InvalidCase(case)
  finite = genospec.is_finite(shape)
  try:
    spec = genospec.build(shape)
  except Exception as e:   # pylint: disable=broad-except
    return res.violate('building %r raised %r' % (shape, e), law='spec-construction-raises', exc=type(e).__name__)

  def has(pred, s=shape):
    if s['t'] == 'space':
      return any(has(pred, e) for e in s['e'])
    if pred(s):
      return True
    return s['t'] == 'choices' and any(has(pred, c) for c in s['c'])
  multi = has(lambda d: d['t'] == 'choices' and d['k'] >= 2)
  cond = has(lambda d: d['t'] == 'choices' and any(c['e'] for c in d['c']))
  if multi or cond:
    res.nontrivial = True
  res.label('finite' if finite else 'infinite', 'multi' if multi else 'single', 'conditional' if cond else 'flat')
  sig = {'multi': str(multi), 'cond': str(cond)}
  seeds = case.get('seeds', [1])
  if not finite:
    # sampler / validator half only
    for sd in seeds:
      try:
        d = pg.random_dna(spec, random.Random(sd))
        spec.validate(d)
      except Exception as e:   # pylint: disable=broad-except
        return res.violate('random_dna(seed=%r) of %r is rejected by validate: %r' % (sd, spec, e),
                           law='random-not-valid', **sig)
      # membership from the definition, not from validate: every float lies in its closed range
      bad = _walk_floats(shape, d)
      if bad == 'mismatch':
        res.label('walk-mismatch')
      elif bad:
        return res.violate('random_dna(seed=%r) has float %r outside [%r, %r] (scale=%r)' % ((sd,) + bad),
                           law='random-float-out-of-range', scale=str(bad[3]), **sig)
    return res
  cap = 400
  n_ref = genospec.size(shape, cap)
  if n_ref > cap:
    res.label('too-large')
    res.nontrivial = False
    return res
  ref = genospec.members(shape)
  refset = set(ref)
  what = 'shape=%r' % (shape,)
  try:
    ssize = spec.space_size
  except Exception as e:   # pylint: disable=broad-except
    return res.violate('space_size raised %r for %s' % (e, what), law='space_size-raises', **sig)
  if ssize != len(ref):
    return res.violate('space_size=%r, reference has %d members; %s' % (ssize, len(ref), what), law='space_size', **sig)
  got = []
  prev = None
  try:
    for d in spec.iter_dna():
      nums = tuple(d.to_numbers())
      got.append(nums)
      if prev is not None and not (prev < d):
        return res.violate('iter_dna not strictly increasing: %r then %r; %s' % (prev.to_numbers(), list(nums), what),
                           law='iter-order', **sig)
      if prev is not None and prev == d:
        return res.violate('iter_dna repeats %r' % (list(nums),), law='iter-duplicate', **sig)
      prev = d
      if len(got) > len(ref) + 3:
        break
  except RecursionError:
    raise
  except Exception as e:   # pylint: disable=broad-except
    return res.violate('iter_dna raised %r after %d DNAs; %s' % (e, len(got), what), law='iter-raises',
                       exc=type(e).__name__, **sig)
  if len(got) != len(ref):
    return res.violate('iter_dna yields %d DNAs, space has %d members; %s' % (len(got), len(ref), what),
                       law='iter-count', **sig)
  if len(set(got)) != len(got):
    return res.violate('iter_dna yields duplicates; %s' % what, law='iter-duplicate', **sig)
  if set(got) != refset:
    return res.violate('iter_dna set differs from the reference: extra %r missing %r; %s' % (
        sorted(set(got) - refset)[:3], sorted(refset - set(got))[:3], what), law='iter-set', **sig)
  if prev is not None:
    try:
      nxt = spec.next_dna(prev)
    except Exception as e:   # pylint: disable=broad-except
      return res.violate('next_dna(last) raised %r; %s' % (e, what), law='next-after-last', **sig)
    if nxt is not None:
      return res.violate('next_dna(last=%r) = %r, expected None; %s' % (prev.to_numbers(), nxt.to_numbers(), what),
                         law='next-after-last', **sig)
    first = spec.first_dna()
    if tuple(first.to_numbers()) != got[0]:
      return res.violate('first_dna %r != first of iter_dna %r' % (first.to_numbers(), got[0]), law='first-dna', **sig)
  # ---- members are accepted
  for m in (ref[:6] + ref[-6:] if len(ref) > 12 else ref):
    try:
      d = pg.DNA.from_numbers(list(m), spec)
      spec.validate(d)
      if tuple(d.to_numbers()) != m:
        return res.violate('from_numbers(%r).to_numbers() = %r; %s' % (m, d.to_numbers(), what), law='member-roundtrip', **sig)
    except Exception as e:   # pylint: disable=broad-except
      return res.violate('member %r rejected: %r; %s' % (m, e, what), law='member-rejected', **sig)
  # ---- one-step corruptions that are not members are rejected
  decs = {}

  def n_at_factory(member):
    try:
      ds = genospec.decisions(shape, member)
    except ValueError:
      return lambda i: 99
    return lambda i: len(ds[i][1]['c']) if i < len(ds) and ds[i][1]['t'] == 'choices' else 99
  corr = case.get('corrupt', [])
  if corr == 'all':
    corr = [[mi, p, how] for mi, p in ((0, 0), (len(ref) // 2, 1), (len(ref) - 1, 2))
            for how in ('+1', '-1', 'neg', 'n', 'swap', 'dup', 'drop', 'extra', 'wrap', 'value', 'float', 'none')]
  for item in corr:
    if not (isinstance(item, list) and len(item) == 3):
      raise core.InvalidCase(case)
    mi, pos, how = item
    if any(isinstance(x, bool) or not isinstance(x, int) for x in (mi, pos)) or not isinstance(how, str):
      raise core.InvalidCase(case)
    member = ref[mi % len(ref)]
    c = _corruptions(member, how, pos, mi, n_at_factory(member))
    if c is None:
      continue
    key = tuple(c)
    is_member = False
    try:
      is_member = key in refset and all(isinstance(x, int) and not isinstance(x, bool) for x in c)
    except TypeError:
      is_member = False
    if is_member:
      continue
    res.label('corrupt:' + how)
    # route 3: structural corruption of a spec-less DNA tree (extra / missing child), then validate and use_spec
    if how in ('extra', 'drop', 'wrap', 'value'):
      try:
        raw = pg.from_json(pg.to_json(pg.DNA.from_numbers(list(member), spec)))
        nodes_ = []

        def walk2(nd):
          nodes_.append(nd)
          for ch in nd.children:
            walk2(ch)
        walk2(raw)
        nd = nodes_[pos % len(nodes_)]
        kids = list(nd.children)
        newval = None
        if how == 'extra':
          kids.append(pg.DNA(mi % 2))
        elif how == 'wrap':
          # one more level: the children hang under a single new node that carries a choice value
          kids = [pg.DNA(mi % 2, [k.clone(deep=True) for k in kids])] if kids else None
        elif how == 'value':
          # a value on a node that carries none (root of several elements, list of sub-choices)
          if nd.value is None and kids:
            newval = mi % 2
          else:
            kids = None
        elif kids:
          kids = kids[:-1]
        else:
          kids = None
        if kids is not None:
          with pg.as_sealed(False):
            if newval is not None:
              nd.rebind(value=newval, skip_notification=True)
            else:
              nd.rebind(children=kids, skip_notification=True)
          try:
            flat = tuple(raw.to_numbers())
          except Exception:   # pylint: disable=broad-except
            flat = None
          if flat is None or flat not in refset or how == 'extra':
            for route, fn in (('validate', lambda: spec.validate(raw)), ('use_spec', lambda: raw.use_spec(spec))):
              try:
                fn()
                accepted = True
              except (ValueError, TypeError, IndexError, KeyError):
                accepted = False
              if accepted and (flat is None or flat not in refset):
                return res.violate('malformed DNA %r (%s child at node %d of member %r) is accepted by %s; %s' % (
                    raw, how, pos % len(nodes_), member, route, what), law='non-member-accepted', how=how + '-child',
                                   route=route, **sig)
      except (ValueError, TypeError, KeyError, pg.WritePermissionError):
        pass
    # route 4: a sibling sub-DNA copied over another one (identically, or with its last decision changed):
    # for a distinct multi-choice both repeat a candidate
    if how == 'dup':
      try:
        for variant in ('same', 'modified'):
          raw = pg.from_json(pg.to_json(pg.DNA.from_numbers(list(member), spec)))
          parents = []

          def walk3(nd):
            if len(nd.children) >= 2:
              parents.append(nd)
            for ch in nd.children:
              walk3(ch)
          walk3(raw)
          if not parents:
            break
          nd = parents[pos % len(parents)]
          kids = list(nd.children)
          i = mi % len(kids)
          j = (i + 1) % len(kids)
          copy_ = kids[i].clone(deep=True)
          if variant == 'modified':
            leaf = copy_
            while leaf.children:
              leaf = leaf.children[-1]
            if leaf is copy_ or not isinstance(leaf.value, int):
              continue
            with pg.as_sealed(False):
              leaf.rebind(value=leaf.value + 1 if leaf.value == 0 else leaf.value - 1, skip_notification=True)
          kids[j] = copy_
          with pg.as_sealed(False):
            nd.rebind(children=kids, skip_notification=True)
          try:
            flat = tuple(raw.to_numbers())
          except Exception:   # pylint: disable=broad-except
            flat = None
          if flat is not None and flat in refset:
            continue
          for route, fn in (('validate', lambda: spec.validate(raw)), ('use_spec', lambda: raw.use_spec(spec))):
            try:
              fn()
              accepted = True
            except (ValueError, TypeError, IndexError, KeyError):
              accepted = False
            if accepted:
              return res.violate('DNA %r (child %d of a node of member %r replaced by a %s copy of child %d) is accepted by %s; %s' % (
                  raw, j, member, variant, i, route, what), law='non-member-accepted', how='dup-sub-' + variant, route=route, **sig)
      except (ValueError, TypeError, KeyError, pg.WritePermissionError):
        pass
    # route 2: a spec-less DNA tree with one node value changed, then validated / bound with use_spec
    if how in ('+1', '-1', 'neg', 'n', 'float', 'bool', 'str') and len(c) == len(member):
      try:
        raw = pg.from_json(pg.to_json(pg.DNA.from_numbers(list(member), spec)))
        nodes_ = []

        def walk(nd):
          if nd.value is not None:
            nodes_.append(nd)
          for ch in nd.children:
            walk(ch)
        walk(raw)
        i = pos % len(member)
        if len(nodes_) == len(member):
          with pg.as_sealed(False):
            nodes_[i].rebind(value=c[i], skip_notification=True)
          for route, fn in (('validate', lambda: spec.validate(raw)), ('use_spec', lambda: raw.use_spec(spec))):
            try:
              fn()
              accepted = True
            except (ValueError, TypeError, IndexError, KeyError):
              accepted = False
            if accepted:
              return res.violate('DNA %r (node %d of member %r set to %r) is accepted by %s; %s' % (
                  raw, i, member, c[i], route, what), law='non-member-accepted', how=how, route=route, **sig)
      except (ValueError, TypeError, KeyError, pg.WritePermissionError):
        pass
    try:
      d = pg.DNA.from_numbers(list(c), spec)
      spec.validate(d)
      back = d.to_numbers()
    except (ValueError, TypeError, IndexError, KeyError):
      continue
    except RecursionError:
      raise
    except Exception as e:   # pylint: disable=broad-except
      return res.violate('corrupted numbers %r (%s of %r) raised %r; %s' % (c, how, member, e, what),
                         law='corruption-raises-other', how=how, exc=type(e).__name__, **sig)
    if tuple(back) in refset and all(type(x) is int for x in back) and list(back) != list(c):
      # accepted after normalisation to a member (e.g. numbers re-read) - still a non-member input accepted
      pass
    return res.violate('non-member numbers %r (%s of member %r) accepted, reads back %r; %s' % (c, how, member, back, what),
                       law='non-member-accepted', how=how, **sig)
  # ---- the sampler only returns members
  for sd in seeds:
    try:
      r = tuple(pg.random_dna(spec, random.Random(sd)).to_numbers())
    except Exception as e:   # pylint: disable=broad-except
      return res.violate('random_dna(seed=%r) raised %r; %s' % (sd, e, what), law='random-raises', **sig)
    if r not in refset:
      return res.violate('random_dna(seed=%r) = %r is not a member; %s' % (sd, list(r), what), law='random-not-member', **sig)
  # ---- sweeping proposes the same sequence
  algo = pg.geno.Sweeping()
  algo.setup(spec)
  seq = []
  try:
    for _ in range(len(ref)):
      seq.append(tuple(algo.propose().to_numbers()))
  except Exception as e:   # pylint: disable=broad-except
    return res.violate('Sweeping raised %r after %d proposals of %d; %s' % (e, len(seq), len(ref), what), law='sweeping-raises', **sig)
  if seq != got:
    return res.violate('Sweeping sequence differs from iter_dna; %s' % what, law='sweeping-sequence', **sig)
  # the end is final: asking again (a second worker, a second pass) does not start the sweep over
  for attempt in (1, 2, 3):
    try:
      d = algo.propose()
      return res.violate('Sweeping proposes %r beyond the end of the space (call %d after the last member); %s' % (
          d.to_numbers(), attempt, what), law='sweeping-end', attempt=str(attempt), **sig)
    except StopIteration:
      pass
  return res
