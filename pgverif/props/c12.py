"""C12 — DNA views are lossless and stay aligned with the specification."""
import json
import itertools
import random

import pyglove as pg
from hypothesis import strategies as st
from pyglove.ext import evolution as ev

from pgverif import core
from pgverif.gen import genospec

ID = 'C12'
RULE = ('a DNASpec shape with names, literal values, floats and conditional nesting, a valid DNA (enumerated member or '
        'random_dna) and a chain of DNA-producing library operations (next_dna, random_dna(previous_dna), parse, clone, '
        'JSON, from_numbers, from_dict, evolution mutators/recombinators). For every DNA: flat numbers, nested numbers, '
        'every to_dict(key_type x value_type x multi_choice_key x include_inactive) and compact/verbose JSON rebuild an '
        'equal DNA with the spec; lookups by decision point / id / name return the decision of the reference walk; all '
        'views equal those of a DNA rebuilt from the flat numbers (alignment). Non-trivial: named multi-choice or '
        'conditional nesting, and chain length >=2; distinct = distinct case JSON')
ASSUMPTIONS = [
    'literal values are distinct strings, so literal views are invertible',
    'the alignment rebuild goes through the flat numbers (the nested view is itself under test)',
    'custom decision points are not generated here (their DNA value is an opaque user string)',
]
BUDGET = {'quick': 400, 'thorough': 30000}

KEY_TYPES = ['id', 'name_or_id', 'dna_spec']
VALUE_TYPES = ['value', 'dna', 'choice', 'literal', 'choice_and_literal']
MULTI = ['subchoice', 'parent', 'both']
CHAIN = ['next', 'random_prev', 'parse', 'clone', 'json', 'json_compact', 'from_numbers', 'from_dict',
         'm.Uniform', 'm.Swap', 'r.Uniform', 'r.Sample', 'r.KPoint', 'r.Segmented', 'r.PMX', 'r.Order', 'r.Cycle',
         'r.Average']


_C = {'t': 'space', 'e': []}
_SUB = {'t': 'space', 'e': [{'t': 'choices', 'k': 1, 'c': [_C, _C], 'distinct': True, 'sorted': False}]}
PERM_SHAPES = [
    # permutation points: distinct, unsorted multi-choices whose k equals the number of candidates
    {'t': 'space', 'e': [{'t': 'choices', 'k': 3, 'c': [_C, _C, _C], 'distinct': True, 'sorted': False}]},
    {'t': 'space', 'e': [{'t': 'choices', 'k': 3, 'c': [_SUB, _C, _SUB], 'distinct': True, 'sorted': False, 'name': 'p'}]},
    {'t': 'space', 'e': [{'t': 'choices', 'k': 2, 'c': [_SUB, _SUB], 'distinct': True, 'sorted': False},
                         {'t': 'choices', 'k': 3, 'c': [_C, _C, _C], 'distinct': True, 'sorted': False}]},
]
EXHAUSTIVE_DOMAINS = {
    'permutation_chains': '3 shapes with permutation points (with and without sub-spaces under the permuted candidates) x '
                          '{PMX, Order, Cycle, Swap, from_dict} x seeds 0..3 x 3 starting members (thorough: 24 x 6), each followed by a second operator',
}


def exhaustive(tier):
  seeds = range(4) if tier == 'quick' else range(24)

  def gen():
    for shape in PERM_SHAPES:
      for op in ('r.PMX', 'r.Order', 'r.Cycle', 'm.Swap', 'from_dict'):
        for sd in seeds:
          for pick in range(3 if tier == 'quick' else 6):
            for second in ('from_dict', 'clone'):
              yield {'shape': shape, 'pick': pick * 7 + sd, 'chain': [[op, sd], [second, sd % 3]]}
  return {'permutation_chains': gen()}


def strategy(tier):
  return st.fixed_dictionaries({
      'shape': genospec.shape_strategy(max_depth=2, floats=True, names=True, max_cands=3, max_k=3, max_elems=2),
      'pick': st.integers(0, 10 ** 6),
      'chain': st.lists(st.tuples(st.sampled_from(CHAIN), st.integers(0, 10 ** 4)).map(list), min_size=2, max_size=5),
  })


ALIGN_VIEWS = ([(kt, vt, 'subchoice', False) for kt in KEY_TYPES for vt in VALUE_TYPES] +
               [('id', 'value', 'parent', False), ('id', 'value', 'both', True), ('name_or_id', 'literal', 'parent', True),
                ('dna_spec', 'dna', 'both', False), ('id', 'choice', 'parent', True)])


def _views(d, full=False):
  out = {}
  combos = itertools.product(KEY_TYPES, VALUE_TYPES, MULTI, (False, True)) if full else ALIGN_VIEWS
  for kt, vt, mk, inc in combos:
    try:
      v = d.to_dict(key_type=kt, value_type=vt, multi_choice_key=mk, include_inactive_decisions=inc)
    except Exception as e:   # pylint: disable=broad-except
      out[(kt, vt, mk, inc)] = ('raises', type(e).__name__, str(e)[:100])
      continue
    norm = []
    for k, x in v.items():
      kk = k.id.path if isinstance(k, pg.geno.DNASpec) else str(k)
      norm.append((kk, _norm(x)))
    out[(kt, vt, mk, inc)] = norm
  return out


def _norm(x):
  if isinstance(x, pg.DNA):
    return ('dna', tuple(x.to_numbers()))
  if isinstance(x, list):
    return [_norm(y) for y in x]
  return x


def _check_dna(res, spec, shape, d, origin, sig, full=True):
  """All view laws for one DNA; returns True if a violation was recorded."""
  nums = d.to_numbers()
  what = 'dna=%r numbers=%r from %s; shape=%r' % (d, nums, origin, shape)
  try:
    spec.validate(d)
  except Exception as e:   # pylint: disable=broad-except
    res.violate('DNA produced by %s is not valid: %r; %s' % (origin, e, what), law='produced-invalid', origin=origin, **sig)
    return True
  # flat numbers
  try:
    back = pg.DNA.from_numbers(list(nums), spec)
  except Exception as e:   # pylint: disable=broad-except
    res.violate('from_numbers(to_numbers()) raised %r; %s' % (e, what), law='flat-roundtrip', how='raises', origin=origin, **sig)
    return True
  if back != d:
    res.violate('from_numbers(to_numbers()) = %r; %s' % (back, what), law='flat-roundtrip', how='differs', origin=origin, **sig)
    return True
  # alignment: all views equal those of the rebuilt DNA
  v1, v2 = _views(d, full), _views(back, full)
  for key in v1:
    if v1[key] != v2[key]:
      res.violate('to_dict%r = %r, rebuilt DNA gives %r; %s' % (key, v1[key], v2[key], what),
                  law='alignment', origin=origin, view='%s/%s/%s' % key[:3], **sig)
      return True
  if not full:
    return False
  # nested numbers
  try:
    nested = d.to_numbers(flatten=False)
    n2 = pg.DNA(nested)
    n2.use_spec(spec)
    ok = n2 == d
    err = None
  except Exception as e:   # pylint: disable=broad-except
    ok, err, n2 = False, e, None
  if not ok:
    res.violate('nested numbers %r do not rebuild the DNA (%s); %s' % (
        d.to_numbers(flatten=False), 'raised %r' % err if err else 'got %r' % n2, what),
                law='nested-roundtrip', how='raises' if err else 'differs', origin=origin, **sig)
    return True
  # JSON
  for compact in (True, False):
    try:
      j = pg.to_json(d, compact=compact)
      w = pg.from_json(j)
      if not isinstance(w, pg.DNA):
        raise ValueError('not a DNA: %r' % (w,))
      w.use_spec(spec)
      same = w == d
      err = None
    except Exception as e:   # pylint: disable=broad-except
      same, err = False, e
    if not same:
      res.violate('JSON(compact=%r) does not rebuild the DNA (%r); %s' % (compact, err, what), law='json-roundtrip',
                  compact=str(compact), origin=origin, **sig)
      return True
  # dict views rebuild
  int_lits = '"lit": "ints"' in json.dumps(shape)
  combos = [(kt, vt, 'subchoice', False) for kt in KEY_TYPES for vt in VALUE_TYPES] + [
      (kt, vt, mk, inc) for kt, vt in (('id', 'value'), ('name_or_id', 'literal'), ('dna_spec', 'dna'),
                                       ('name_or_id', 'choice_and_literal'))
      for mk in MULTI for inc in (False, True) if not (mk == 'subchoice' and not inc)]
  if len(nums) > 8:
    # large DNAs: a rotating third of the view combinations (each costs a full rebuild of the DNA)
    combos = combos[len(nums) % 3::3]
  for kt, vt, mk, inc in combos:
    if True:
      try:
        dd = d.to_dict(key_type=kt, value_type=vt, multi_choice_key=mk, include_inactive_decisions=inc)
        # integer literal values: from_dict reads an int as a candidate index unless told otherwise (documented)
        w = pg.DNA.from_dict(dict(dd), spec, use_ints_as_literals=(vt == 'literal' and int_lits))
        same = w == d
        err = None
      except Exception as e:   # pylint: disable=broad-except
        same, err = False, e
      if not same:
        res.violate('from_dict(to_dict(%s, %s, %s, inactive=%r)) %s; dict=%r; %s' % (
            kt, vt, mk, inc, 'raised %r' % err if err else 'differs', _safe_dict(d, kt, vt, mk, inc), what),
                    law='dict-roundtrip', key_type=kt, value_type=vt, multi=mk, how='raises' if err else 'differs',
                    origin=origin, **sig)
        return True
  # lookups against the reference walk
  try:
    decs = genospec.decisions(shape, nums)
  except ValueError as e:
    res.violate('flat numbers %r do not fit the shape (%s); %s' % (nums, e, what), law='numbers-do-not-fit', origin=origin, **sig)
    return True
  lib = d.to_dict(key_type='dna_spec', value_type='value', multi_choice_key='subchoice')
  lib_vals = list(lib.values())
  ref_vals = [v for _, _, v in decs]
  if lib_vals != ref_vals:
    res.violate('decisions in walk order %r, reference walk %r; %s' % (lib_vals, ref_vals, what), law='decision-order',
                origin=origin, **sig)
    return True
  for dp, val in lib.items():
    for key in (dp, dp.id, str(dp.id)):
      try:
        node = d[key]
      except Exception as e:   # pylint: disable=broad-except
        res.violate('lookup d[%r] raised %r; %s' % (key, e, what), law='lookup', how='raises', origin=origin, **sig)
        return True
      if not isinstance(node, pg.DNA) or node.value != val:
        res.violate('lookup d[%r] = %r, decision there is %r; %s' % (key, node, val, what), law='lookup', how='wrong',
                    origin=origin, **sig)
        return True
    if dp.name and not dp.is_subchoice:
      node = d[dp.name]
      if isinstance(node, list):
        # documented: a list when several decision points are associated with the name
        # (a named point below a multi-choice exists once per subchoice)
        if any(isinstance(x, pg.DNA) and x.value == val for x in node):
          continue
      if not isinstance(node, pg.DNA) or node.value != val:
        res.violate('lookup by name d[%r] = %r, decision there is %r; %s' % (dp.name, node, val, what), law='lookup',
                    how='name', origin=origin, **sig)
        return True
  return False


def _safe_dict(d, kt, vt, mk, inc):
  try:
    dd = d.to_dict(key_type=kt, value_type=vt, multi_choice_key=mk, include_inactive_decisions=inc)
    return {(k.id.path if isinstance(k, pg.geno.DNASpec) else k): _norm(v) for k, v in dd.items()}
  except Exception as e:   # pylint: disable=broad-except
    return 'to_dict raised %r' % e


def execute(case):
  res = core.Result()
  if not isinstance(case, dict) or not isinstance(case.get('shape'), dict):
    raise core.InvalidCase(case)
  shape = case['shape']
  genospec.validate(shape)
  if shape['t'] != 'space':
    raise core.InvalidCase(case)
  try:
    spec = genospec.build(shape)
  except Exception as e:   # pylint: disable=broad-except
    raise core.InvalidCase('spec does not build: %r' % e)
  pick = case.get('pick', 0)
  if isinstance(pick, bool) or not isinstance(pick, int):
    raise core.InvalidCase(case)

  def has(pred, s=shape):
    if s['t'] == 'space':
      return any(has(pred, e) for e in s['e'])
    if pred(s):
      return True
    return s['t'] == 'choices' and any(has(pred, c) for c in s['c'])
  named_multi = has(lambda x: x['t'] == 'choices' and x['k'] >= 2 and x.get('name'))
  cond = has(lambda x: x['t'] == 'choices' and any(c['e'] for c in x['c']))
  sig = {}
  finite = genospec.is_finite(shape)
  if finite and genospec.size(shape, 300) <= 300:
    ref = genospec.members(shape)
    d = pg.DNA.from_numbers(list(ref[pick % len(ref)]), spec)
    res.label('enumerated')
  else:
    d = pg.random_dna(spec, random.Random(pick))
    res.label('random')
  if _check_dna(res, spec, shape, d, 'initial', sig):
    return res
  chain = case.get('chain', [])
  if not isinstance(chain, list):
    raise core.InvalidCase(case)
  cur = d
  applied = 0
  for item in chain:
    if not (isinstance(item, list) and len(item) == 2 and item[0] in CHAIN):
      raise core.InvalidCase(case)
    name, arg = item
    if isinstance(arg, bool) or not isinstance(arg, int):
      raise core.InvalidCase(case)
    rnd = random.Random(arg)
    try:
      if name == 'next':
        nxt = spec.next_dna(cur)
        if nxt is None:
          continue
      elif name == 'random_prev':
        nxt = spec.random_dna(rnd, previous_dna=cur)
      elif name == 'parse':
        nxt = pg.DNA.parse(cur.to_numbers(flatten=True), spec=spec) if False else pg.DNA.from_numbers(cur.to_numbers(), spec)
      elif name == 'clone':
        nxt = cur.clone(deep=bool(arg % 2))
      elif name in ('json', 'json_compact'):
        nxt = pg.from_json(pg.to_json(cur, compact=(name == 'json_compact')))
        nxt.use_spec(spec)
      elif name == 'from_numbers':
        nxt = pg.DNA.from_numbers(cur.to_numbers(), spec)
      elif name == 'from_dict':
        nxt = pg.DNA.from_dict(cur.to_dict(key_type=KEY_TYPES[arg % 3], value_type='value'), spec)
      elif name.startswith('m.'):
        op = ev.mutators.Uniform(seed=arg) if name == 'm.Uniform' else ev.mutators.Swap(seed=arg)
        out = op([cur])
        nxt = out[0] if out else None
        if nxt is None:
          continue
      else:
        other = pg.random_dna(spec, rnd)
        parents = [cur, other]
        op = {
            'r.Uniform': lambda: ev.recombinators.Uniform(seed=arg),
            'r.Sample': lambda: ev.recombinators.Sample(weights=lambda xs: [1.0] * len(xs), seed=arg),
            'r.KPoint': lambda: ev.recombinators.KPoint(1 + arg % 2, seed=arg),
            'r.Segmented': lambda: ev.recombinators.Segmented(seed=arg),
            'r.PMX': lambda: ev.recombinators.PartiallyMapped(seed=arg),
            'r.Order': lambda: ev.recombinators.Order(seed=arg),
            'r.Cycle': lambda: ev.recombinators.Cycle(),
            'r.Average': lambda: ev.recombinators.Average(),
        }[name]()
        out = op(parents)
        if not out:
          continue
        nxt = out[arg % len(out)]
    except RecursionError:
      raise
    except Exception as e:   # pylint: disable=broad-except
      res.label('chain-op-raised:' + name)
      res.sample = None
      # operators raising on valid parents are C14's concern; here the chain just stops
      break
    applied += 1
    res.label('chain:' + name)
    if (named_multi or cond) and applied >= 2:
      res.nontrivial = True
    if _check_dna(res, spec, shape, nxt, name, sig, full=(item is chain[-1])):
      return res
    cur = nxt
  if (named_multi or cond) and applied >= 2:
    res.nontrivial = True
  return res
