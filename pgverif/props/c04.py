"""C04 — value-spec algebra: idempotent apply, compatibility / extension narrow."""
import copy
import itertools

import pyglove as pg
from hypothesis import strategies as st

from pgverif import core
from pgverif.gen import specs

ID = 'C04'
RULE = ('a pair of value specs (b derived from a by narrowing/widening a bound or size, toggling noneable / '
        'default / frozen, swapping an element spec, shrinking an enum, adding a field or union candidate; or '
        'unrelated) and candidate values from the valid and near-miss samplers of both; laws: apply idempotent, '
        'default accepted, apply leaves the spec unchanged, is_compatible sound on sampled values, extension '
        'narrows and base stays compatible. Non-trivial: related pair and >=1 candidate accepted by exactly '
        'one of the two; distinct = distinct case JSON. An exhaustive lattice of Int ranges x noneable x frozen '
        'and List sizes over {None,0,1,2} (all ordered pairs) is enumerated in every run')
ASSUMPTIONS = [
    'regular-expression constraints are outside the claim and are not generated',
    'containment is checked on sampled values (boundary-directed), not proved',
    'acceptance = apply returns without TypeError/ValueError/KeyError; any other exception is a violation',
    'extended Dict/Object specs may add fields: "accepted by the base" is evaluated on the shared keys',
]
BUDGET = {'quick': 6000, 'thorough': 160000}
EXHAUSTIVE_DOMAINS = {
    'int_lattice': 'Int(min,max) over {None,0,1,2}^2 x noneable x frozen(default=min-ish): all ordered pairs',
    'list_lattice': 'List(Int, min_size, max_size) over {0,1,2} x {None,0,1,2} x noneable: all ordered pairs',
    'vtuple_lattice': 'variable-length Tuple(Int, min_size, max_size) over {0,1,2} x {None,0,1,2,3}: all ordered pairs',
    'dict_keys_lattice': 'Dict specs over named keys {none, a, a + defaulted b, a + required u1 (a name the free-key pattern matches)} x free-key field {none, Int, Str}: all ordered pairs',
    'enum_vs_int': 'base Int(min,max) over {None,0,1,2}^2 x child Enum over every non-empty subset of {-1,0,1,2,3}',
    'sized_tuple_vs_fixed': 'base fixed Tuple of 2-3 Int positions with ranges from {none, >=0, <=1, 1..2} x child Tuple(Int, size=n)',
    'frozen_enum_base': 'base Enum([0,1,2]) frozen at i x child (Enum / Int / smaller Enum) frozen at j, all i, j',
    'union_frozen_candidate': 'base Union([Int frozen at 0/1/2, Str]) x child in {Int, Int(min 0), Int frozen at 0/1/2, Enum, Str}',
    'union_overlap': 'Union of Bool and Int(min,max) over {None,0,2}^2 in both orders, bare or as List element x every ordered pair '
                     'of values from {True,False,-1,0,1,2,3,"s"} applied to one spec object vs fresh equal specs',
}
REJECT = (TypeError, ValueError, KeyError)
DERIVE = ['same', 'min+', 'min-', 'max+', 'max-', 'nomin', 'nomax', 'noneable', 'default', 'frozen',
          'size+', 'size-', 'elem', 'enum-', 'enum+', 'field+', 'field-', 'cand+', 'kind', 'inner', 'to-enum', 'nomaxsize', 'redefault', 'xform', 'dyn']


OVERLAP_VALUES = [True, False, -1, 0, 1, 2, 3, 's']


def _overlap_strategy():
  bound = st.sampled_from([None, 0, 1, 2])
  return st.fixed_dictionaries({
      'overlap': st.fixed_dictionaries({
          'lo': bound, 'hi': bound, 'bool_first': st.booleans(), 'str': st.booleans(),
          'wrap': st.sampled_from(['none', 'list'])}),
      'seq': st.lists(st.sampled_from(OVERLAP_VALUES), min_size=2, max_size=5),
  }).map(_order_bounds)


def _order_bounds(c):
  o = c['overlap']
  if o['lo'] is not None and o['hi'] is not None and o['lo'] > o['hi']:
    o['lo'], o['hi'] = o['hi'], o['lo']
  return c


def strategy(tier):
  return st.one_of(_main_strategy(tier), _main_strategy(tier), _main_strategy(tier), _main_strategy(tier), _overlap_strategy())


def _main_strategy(tier):
  return st.fixed_dictionaries({
      'a': specs.spec_strategy(max_leaves=4),
      'derive': st.lists(st.tuples(st.sampled_from(DERIVE), st.integers(0, 5)).map(list), max_size=3),
      'other': st.one_of(st.none(), st.none(), specs.spec_strategy(max_leaves=3)),
      'values': st.lists(st.tuples(st.integers(0, 3), specs.CHOICES).map(list), min_size=2, max_size=8),
  })


def exhaustive(tier):
  b = [None, 0, 1, 2]

  def ints():
    out = []
    for lo, hi in itertools.product(b, b):
      if lo is not None and hi is not None and lo > hi:
        continue
      for noneable in (False, True):
        for frozen in (False, True):
          d = {'t': 'int', 'min': lo, 'max': hi}
          if noneable:
            d['noneable'] = True
          if frozen:
            d['default'] = [0]
            d['frozen'] = True
          out.append(d)
    return out

  def lists():
    out = []
    for lo in (0, 1, 2):
      for hi in b:
        if hi is not None and hi < lo:
          continue
        for noneable in (False, True):
          d = {'t': 'list', 'elem': {'t': 'int', 'min': None, 'max': None}, 'min': lo, 'max': hi}
          if noneable:
            d['noneable'] = True
          out.append(d)
    return out

  def vtuples():
    out = []
    for lo in (0, 1, 2):
      for hi in [None, 0, 1, 2, 3]:
        if hi is not None and hi < lo:
          continue
        out.append({'t': 'vtuple', 'elem': {'t': 'int', 'min': None, 'max': None}, 'min': lo, 'max': hi})
    return out

  vals = [[0, [0]], [0, [1]], [0, [2]], [1, [0]], [1, [1]], [1, [2]], [2, [0]], [2, [1]], [3, [0]], [3, [1]]]

  def pairs(descs):
    for x, y in itertools.product(descs, repeat=2):
      yield {'a': x, 'derive': [], 'other': y, 'values': vals}
  def enums():
    pool = [-1, 0, 1, 2, 3]
    for lo, hi in itertools.product(b, b):
      if lo is not None and hi is not None and lo > hi:
        continue
      for mask in range(1, 32):
        vs = [x for i, x in enumerate(pool) if (mask >> i) & 1]
        yield {'a': {'t': 'int', 'min': lo, 'max': hi}, 'derive': [],
               'other': {'t': 'enum', 'values': vs, 'default': [0]},
               'values': [[1, [i]] for i in range(len(vs))] + [[0, [0]], [2, [0]], [2, [1]]]}

  def overlaps():
    for lo, hi in itertools.product([None, 0, 2], repeat=2):
      if lo is not None and hi is not None and lo > hi:
        continue
      for bool_first in (True, False):
        for wrap in ('none', 'list'):
          for x, y in itertools.product(OVERLAP_VALUES, repeat=2):
            yield {'overlap': {'lo': lo, 'hi': hi, 'bool_first': bool_first, 'str': False, 'wrap': wrap}, 'seq': [x, y]}
  def sized_tuples():
    # a child Tuple(spec, size=n) shares ONE element spec among its positions; the base constrains each position
    rng = [(None, None), (0, None), (None, 1), (1, 2)]
    for n in (2, 3):
      for combo in itertools.product(rng, repeat=n):
        base = {'t': 'tuple', 'elems': [{'t': 'int', 'min': lo, 'max': hi} for lo, hi in combo]}
        child = {'t': 'vtuple', 'elem': {'t': 'int', 'min': None, 'max': None}, 'min': n, 'max': n}
        yield {'a': base, 'derive': [], 'other': child, 'values': [[0, [0]], [0, [1, 2]], [2, [0]], [2, [1]], [2, [2, 1]], [1, [0]], [3, [0]], [3, [1]]]}

  def frozen_enums():
    vals = [0, 1, 2]
    for i in range(3):
      for j in range(3):
        base = {'t': 'enum', 'values': vals, 'default': [i], 'frozen': True}
        for child in ({'t': 'enum', 'values': vals, 'default': [j], 'frozen': True},
                      {'t': 'int', 'min': None, 'max': None, 'default': [j], 'frozen': True},
                      {'t': 'enum', 'values': vals[:2], 'default': [j % 2], 'frozen': True}):
          yield {'a': base, 'derive': [], 'other': child, 'values': [[0, [0]], [0, [1]], [0, [2]], [1, [0]], [1, [1]], [1, [2]], [2, [0]]]}

  def ufcs():
    for fv in (0, 1, 2):
      for child in ('int', 'int_min0', 'enum', 'str'):
        yield {'ufc': {'frozen': fv, 'child': child, 'child_frozen': None}}
      for cv in (0, 1, 2):
        yield {'ufc': {'frozen': fv, 'child': 'int_frozen', 'child_frozen': cv}}
  def dict_keys():
    named = [[], [['a', {'t': 'int', 'min': None, 'max': None}]],
             [['a', {'t': 'int', 'min': None, 'max': None}], ['b', {'t': 'str', 'default': [0]}]],
             [['a', {'t': 'int', 'min': None, 'max': None}], ['u1', {'t': 'int', 'min': None, 'max': None}]]]
    dyns = [None, {'t': 'int', 'min': None, 'max': None}, {'t': 'str'}]
    descs = [{'t': 'dict', 'fields': copy.deepcopy(f), 'dyn': copy.deepcopy(dy)} for f in named for dy in dyns]
    dvals = [[w, c] for w in (0, 1) for c in ([0], [1], [2], [1, 1, 1], [2, 2, 2, 2], [0, 2, 1, 0], [0, 0, 2, 1], [0, 0, 1, 2], [1, 0, 2, 2])]
    for x, y in itertools.product(descs, repeat=2):
      yield {'a': x, 'derive': [], 'other': y, 'values': dvals + [[2, [0]], [3, [0]]]}
  return {'int_lattice': pairs(ints()), 'list_lattice': pairs(lists()), 'vtuple_lattice': pairs(vtuples()), 'dict_keys_lattice': dict_keys(),
          'enum_vs_int': enums(), 'union_overlap': overlaps(), 'union_frozen_candidate': ufcs(), 'frozen_enum_base': frozen_enums(),
          'sized_tuple_vs_fixed': sized_tuples()}


def _derive(d, kind, arg):
  """A spec descriptor related to d (pure function on JSON)."""
  d = copy.deepcopy(d)
  t = d['t']
  if kind == 'same':
    return d
  if kind in ('min+', 'min-', 'max+', 'max-', 'nomin', 'nomax') and t in ('int', 'float'):
    lo, hi = d.get('min'), d.get('max')
    if kind == 'min+':
      lo = (lo if lo is not None else -1) + 1 + arg % 2
    elif kind == 'min-':
      lo = (lo if lo is not None else 1) - 1 - arg % 2
    elif kind == 'max+':
      hi = (hi if hi is not None else 1) + 1 + arg % 2
    elif kind == 'max-':
      hi = (hi if hi is not None else 3) - 1 - arg % 2
    elif kind == 'nomin':
      lo = None
    else:
      hi = None
    if lo is not None and hi is not None and lo > hi:
      lo, hi = hi, lo
    d['min'], d['max'] = lo, hi
    return d
  if kind == 'noneable':
    if d.get('noneable'):
      d.pop('noneable')
      d.pop('ctor_noneable', None)
    else:
      d['noneable'] = True
      if d['t'] == 'union' and arg % 2:
        d['ctor_noneable'] = True       # Union(..., is_noneable=True) instead of .noneable()
    return d
  if kind == 'default':
    if 'default' in d:
      d.pop('default')
      d.pop('frozen', None)
    else:
      d['default'] = [arg]
    return d
  if kind == 'redefault' and 'default' in d:
    # another default (and, if frozen, another frozen value)
    d['default'] = [(x + 1 + arg) for x in d['default']] or [arg + 1]
    return d
  if kind == 'frozen':
    if d.get('frozen'):
      d.pop('frozen')
    else:
      d.setdefault('default', [arg])
      d['frozen'] = True
    return d
  if kind in ('size+', 'size-') and t in ('list', 'vtuple'):
    lo, hi = d.get('min') or 0, d.get('max')
    if kind == 'size+':
      if arg % 2:
        lo += 1
      else:
        hi = None if hi is None else hi + 1
    else:
      if arg % 2:
        lo = max(0, lo - 1)
      else:
        hi = (lo + 1) if hi is None else max(lo, hi - 1)
    if hi is not None and hi < lo:
      hi = lo
    d['min'], d['max'] = lo, hi
    return d
  if kind == 'xform' and t in specs.XFORM_KINDS:
    # the same spec with a user transform (the identity) and a default (applied through it when the spec is built)
    if d.get('xform'):
      d.pop('xform')
    else:
      d['xform'] = True
      if arg % 2 and not d.get('frozen'):
        d.setdefault('default', [arg])
    return d
  if kind == 'nomaxsize' and t in ('list', 'vtuple'):
    d['max'] = None
    if arg % 2:
      d['min'] = (d.get('min') or 0) + 1
    return d
  if kind == 'elem' and t in ('list', 'vtuple'):
    d['elem'] = _derive(d['elem'], DERIVE[(arg * 3 + 1) % 10], arg)
    return d
  if kind == 'inner':
    if t in ('list', 'vtuple'):
      d['elem'] = _derive(d['elem'], DERIVE[1 + arg % 9], arg)
    elif t == 'tuple' and d['elems']:
      d['elems'][arg % len(d['elems'])] = _derive(d['elems'][arg % len(d['elems'])], DERIVE[1 + arg % 9], arg)
    elif t in ('dict', 'object') and d['fields']:
      i = arg % len(d['fields'])
      d['fields'][i][1] = _derive(d['fields'][i][1], DERIVE[1 + arg % 9], arg)
    return d
  if kind == 'enum-' and t == 'enum' and len(d['values']) > 1:
    d['values'] = d['values'][:-1]
    return d
  if kind == 'enum+' and t == 'enum':
    d['values'] = d['values'] + [['zz', 9][arg % 2]]
    return d
  if kind == 'field+' and t in ('dict', 'object'):
    used = {f[0] for f in d['fields']}
    for n in specs.FIELD_NAMES + ['e']:
      if n not in used:
        d['fields'].append([n, {'t': 'int', 'min': None, 'max': None, 'default': [0]} if arg % 2 else {'t': 'str'}])
        break
    return d
  if kind == 'dyn' and t == 'dict':
    # the same named keys with / without a field for free string keys
    d['dyn'] = None if d.get('dyn') is not None else ({'t': 'float', 'min': None, 'max': None} if arg % 2 else {'t': 'str'})
    return d
  if kind == 'field-' and t == 'dict' and d['fields']:
    d['fields'] = d['fields'][:-1]
    return d
  if kind == 'cand+' and t == 'union':
    kinds = {specs._vtype(c) for c in d['cands']}   # pylint: disable=protected-access
    for c in ({'t': 'str'}, {'t': 'float', 'min': None, 'max': None}, {'t': 'dict0'}):
      if specs._vtype(c) not in kinds and not (specs._vtype(c) in ('int', 'float') and 'bool' in kinds):   # pylint: disable=protected-access
        d['cands'].append(c)
        break
    return d
  if kind == 'to-enum' and t in ('int', 'float'):
    # an Enum child of a ranged numeric base: values on, inside and just outside the bounds
    lo, hi = d.get('min'), d.get('max')
    pool = [x for x in ((lo - 1) if lo is not None else None, lo, hi, (hi + 1) if hi is not None else None, 0, 1) if x is not None]
    vals = []
    for i, x in enumerate(pool):
      if (arg >> i) & 1 or i == arg % len(pool):
        x = float(x) if t == 'float' else int(x)
        if x not in vals:
          vals.append(x)
    out = {'t': 'enum', 'values': vals, 'default': [0]}
    if d.get('noneable'):
      out['noneable'] = True
    return out
  if kind == 'kind':
    if t == 'int':
      return {**d, 't': 'float'}
    if t == 'float':
      return {**d, 't': 'int'}
    if t in ('int', 'float', 'str', 'bool'):
      return {'t': 'any'}
    if t == 'enum' and all(isinstance(v, int) and not isinstance(v, bool) for v in d['values']):
      return {'t': 'int', 'min': None, 'max': None}
    if t == 'enum' and all(isinstance(v, str) for v in d['values']):
      return {'t': 'str'}
  return d


def _accepts(spec, make_value):
  """(accepted, result or exception) of spec.apply on a fresh value."""
  try:
    v = make_value()
  except REJECT as e:
    return None, e
  try:
    return True, spec.apply(v)
  except REJECT as e:
    return False, e


def _plain_copy(v):
  """A spec-free copy of an applied value (typed symbolic containers become plain ones)."""
  if isinstance(v, pg.Dict) or (isinstance(v, dict) and not isinstance(v, pg.Object)):
    items = v.sym_items() if isinstance(v, pg.Dict) else v.items()
    return {k: _plain_copy(x) for k, x in items if not (pg.MISSING_VALUE == x)}
  if isinstance(v, (pg.List, list)) and not isinstance(v, tuple):
    items = v.sym_values() if isinstance(v, pg.List) else v
    return [_plain_copy(x) for x in items]
  if isinstance(v, tuple):
    return tuple(_plain_copy(x) for x in v)
  if isinstance(v, pg.Object):
    return v.clone(deep=True)
  return copy.deepcopy(v)


def _kind_sig(d):
  s = d['t']
  for m in ('noneable', 'frozen'):
    if d.get(m):
      s += '+' + m
  if 'default' in d:
    s += '+default'
  return s


def _why_narrower(da, db, out=None):
  """Structural reasons (from the descriptors alone) why a is narrower than b although
  is_compatible may say yes: recorded findings are keyed by these."""
  out = set() if out is None else out
  if not isinstance(da, dict) or not isinstance(db, dict):
    return out
  if specs.is_frozen(da) and not (specs.is_frozen(db) and da.get('default') == db.get('default')
                                   and specs._strip(da) == specs._strip(db)):   # pylint: disable=protected-access
    out.add('frozen')
  ta, tb = da.get('t'), db.get('t')
  if ta == 'list' and tb == 'list':
    if (da.get('min') or 0) > (db.get('min') or 0):
      out.add('list-min-size')
    _why_narrower(da.get('elem'), db.get('elem'), out)
  elif ta == 'vtuple' and tb == 'vtuple':
    _why_narrower(da.get('elem'), db.get('elem'), out)
  elif ta == 'vtuple' and tb == 'tuple':
    for e in db.get('elems', []):
      _why_narrower(da.get('elem'), e, out)
  elif ta == 'tuple' and tb == 'tuple':
    for x, y in zip(da.get('elems', []), db.get('elems', [])):
      _why_narrower(x, y, out)
  elif ta in ('dict', 'object') and tb == ta:
    fb = dict((k, v) for k, v in db.get('fields', []))
    for k, v in da.get('fields', []):
      if k in fb:
        if not specs.has_default(v) and specs.has_default(fb[k]):
          out.add('field-required-vs-default')
        _why_narrower(v, fb[k], out)
    if ta == 'dict' and da.get('dyn') and db.get('dyn'):
      _why_narrower(da['dyn'], db['dyn'], out)
  elif ta == 'union' or tb == 'union':
    for x in (da.get('cands', [da]) if ta == 'union' else [da]):
      for y in (db.get('cands', [db]) if tb == 'union' else [db]):
        if x.get('t') == y.get('t'):
          _why_narrower(x, y, out)
  return out


def _shared_view(v, base_desc, ext_desc):
  """Restrict a dict/object value accepted by the extension to the keys the base declares."""
  return v


def _enum_vs_base(da, db):
  """Is there a position where the extension (b) is an Enum and the base (a) is not?"""
  if not isinstance(da, dict) or not isinstance(db, dict):
    return False
  if db.get('t') == 'enum' and da.get('t') != 'enum':
    return True
  pairs_ = []
  if 'elem' in da and 'elem' in db:
    pairs_.append((da['elem'], db['elem']))
  if 'elems' in da and 'elems' in db:
    pairs_ += list(zip(da['elems'], db['elems']))
  if 'elem' in da and 'elems' in db:
    pairs_ += [(da['elem'], e) for e in db['elems']]
  if 'fields' in da and 'fields' in db:
    fa = dict((k, v) for k, v in da['fields'])
    pairs_ += [(fa[k], v) for k, v in db['fields'] if k in fa]
  if da.get('t') == 'union':
    pairs_ += [(c, db) for c in da.get('cands', [])]
  return any(_enum_vs_base(x, y) for x, y in pairs_)


def _execute_overlap(case, res):
  """Unions whose candidates overlap in Python type (bool is an int): acceptance must not depend on history."""
  o, seq = case.get('overlap'), case.get('seq')
  if not isinstance(o, dict) or not isinstance(seq, list) or not seq or len(seq) > 8:
    raise core.InvalidCase(case)
  lo, hi = o.get('lo'), o.get('hi')
  for x in (lo, hi):
    if not (x is None or (isinstance(x, int) and not isinstance(x, bool))):
      raise core.InvalidCase(case)
  if lo is not None and hi is not None and lo > hi:
    raise core.InvalidCase(case)
  for v in seq:
    if not (isinstance(v, (bool, int)) or v == 's'):
      raise core.InvalidCase(case)

  def make():
    cands = [pg.typing.Bool(), pg.typing.Int(min_value=lo, max_value=hi)]
    if not o.get('bool_first'):
      cands.reverse()
    if o.get('str'):
      cands.append(pg.typing.Str())
    u = pg.typing.Union(cands)
    return pg.typing.List(u) if o.get('wrap') == 'list' else u
  shared = make()
  sig = {'a': 'union-overlap', 'wrap': str(o.get('wrap'))}
  res.label('overlap', 'wrap:%s' % o.get('wrap'))
  outcomes = []
  for v in seq:
    val = [v] if o.get('wrap') == 'list' else v
    ok_s, rs = _accepts(shared, lambda val=val: copy.deepcopy(val))
    ok_f, rf = _accepts(make(), lambda val=val: copy.deepcopy(val))
    for ok, r in ((ok_s, rs), (ok_f, rf)):
      if ok is False and not isinstance(r, REJECT):
        return res.violate('apply raised %r' % (r,), law='apply-raises-other', **sig)
    outcomes.append((ok_s, ok_f))
    if ok_s != ok_f or (ok_s and not pg.eq(rs, rf)):
      return res.violate('%r: after applying %r, the value %r is %s (result %r); a fresh equal spec %s it (result %r)' % (
          shared, seq[:len(outcomes) - 1], val, 'accepted' if ok_s else 'rejected', rs, 'accepts' if ok_f else 'rejects', rf),
                         law='apply-history-dependent', **sig)
  if len({type(v) for v in seq}) > 1 and any(a for a, _ in outcomes) and not all(a for a, _ in outcomes):
    res.nontrivial = True
  return res


def _execute_frozen_candidate(case, res):
  """A base Union with a frozen candidate: what extends it must not accept more than the base."""
  c = case.get('ufc')
  if not isinstance(c, dict):
    raise core.InvalidCase(case)
  fv, child, cv = c.get('frozen'), c.get('child'), c.get('child_frozen')
  if fv not in (0, 1, 2) or child not in ('int', 'int_min0', 'int_frozen', 'enum', 'str') or cv not in (None, 0, 1, 2):
    raise core.InvalidCase(case)
  T = pg.typing
  base = T.Union([T.Int().freeze(fv), T.Str()])

  def mk():
    if child == 'int':
      return T.Int()
    if child == 'int_min0':
      return T.Int(min_value=0)
    if child == 'int_frozen':
      return T.Int().freeze(cv if cv is not None else 0)
    if child == 'enum':
      return T.Enum(1, [0, 1, 2])
    return T.Str()
  sig = {'a': 'union+frozen-candidate', 'b': child}
  res.label('frozen-candidate', 'child:' + child)
  try:
    ext = mk().extend(base)
  except REJECT:
    res.label('not-extended')
    return res
  res.nontrivial = True
  for v in (0, 1, 2, 3, 's'):
    ok_e, _ = _accepts(ext, lambda v=v: v)
    ok_b, rb = _accepts(base, lambda v=v: v)
    if ok_e and ok_b is False:
      return res.violate('%r extended base %r into %r, which accepts %r although the base rejects it (%r)' % (
          mk(), base, ext, v, rb), law='extension-wider-than-base', **sig)
  return res


def execute(case):
  res = core.Result()
  if isinstance(case, dict) and 'overlap' in case:
    return _execute_overlap(case, res)
  if isinstance(case, dict) and 'ufc' in case:
    return _execute_frozen_candidate(case, res)
  if not isinstance(case, dict) or not isinstance(case.get('a'), dict):
    raise core.InvalidCase(case)
  specs._CLASS_CACHE.clear()   # pylint: disable=protected-access
  da = case['a']
  db = case.get('other')
  related = db is None
  if db is None:
    db = da
    for k, arg in case.get('derive', []):
      if k not in DERIVE or isinstance(arg, bool) or not isinstance(arg, int):
        raise core.InvalidCase(case)
      db = _derive(db, k, arg)
      res.label('derive:' + k)
  specs.validate(da)
  try:
    specs.validate(db)
  except core.InvalidCase:
    db = da
  try:
    sa = specs.to_spec(da)
    sb = specs.to_spec(db)
  except specs.SpecBuildError as e:
    return res.violate(str(e)[:1200], law='spec-construction-raises', exc=type(e.__cause__).__name__)
  res.label('a:' + da['t'], 'b:' + db['t'], 'related' if related else 'unrelated')
  sig = {'a': _kind_sig(da), 'b': _kind_sig(db)}
  vals = case.get('values', [])
  if not isinstance(vals, list):
    raise core.InvalidCase(case)

  def makers():
    out = []
    for item in vals:
      if not (isinstance(item, list) and len(item) == 2):
        raise core.InvalidCase(case)
      which, ch = item
      if isinstance(which, bool) or not isinstance(which, int):
        raise core.InvalidCase(case)
      which %= 4
      src = da if which in (0, 2) else db
      if which < 2:
        out.append((lambda s=src, c=ch: specs.sample(s, specs.Choices(c)), 'valid:%d' % which))
      else:
        def mk(s=src, c=ch):
          ok, v = specs.near_miss(s, specs.Choices(c))
          if not ok:
            return specs.sample(s, specs.Choices(c))
          return v
        out.append((mk, 'near:%d' % which))
    return out
  cands = makers()

  # (3) apply must not change the spec
  before = (copy.deepcopy(sa), repr(sa))
  split = False
  acc_a, acc_b = [], []
  for mk, tag in cands:
    ok_a, ra = _accepts(sa, mk)
    ok_b, rb = _accepts(sb, mk)
    if ok_a is None:
      continue
    if not isinstance(ra, REJECT) and ok_a is False:
      pass
    for ok, r, who in ((ok_a, ra, 'a'), (ok_b, rb, 'b')):
      if ok is False and not isinstance(r, REJECT):
        return res.violate('apply raised %r' % (r,), law='apply-raises-other', **sig)
    acc_a.append(ok_a)
    acc_b.append(ok_b)
    if ok_a != ok_b:
      split = True
    # (1) idempotence
    if ok_a:
      try:
        again = sa.apply(ra)
      except REJECT as e:
        return res.violate('a=%r: apply(v)=%r is rejected when applied again: %r' % (sa, ra, e),
                           law='idempotence', how='rejected', **sig)
      try:
        same = pg.eq(again, ra)
      except Exception:   # pylint: disable=broad-except
        same = True
      if not same:
        return res.violate('a=%r: apply(apply(v))=%r != apply(v)=%r' % (sa, again, ra),
                           law='idempotence', how='differs', **sig)
    # (4) compatibility is sound
  # (3b) acceptance is a function of the value: a fresh, equal spec decides every candidate the same way
  idx = 0
  for mk, tag in cands:
    fresh = specs.to_spec(da)
    ok_f, rf = _accepts(fresh, mk)
    if ok_f is None:
      continue
    if idx < len(acc_a) and ok_f != acc_a[idx]:
      return res.violate('a=%r: %r is %s by a fresh spec but was %s by the same spec after it had applied other values' % (
          sa, mk(), 'accepted' if ok_f else 'rejected', 'accepted' if acc_a[idx] else 'rejected'),
                         law='apply-history-dependent', **sig)
    idx += 1
  try:
    compat = sa.is_compatible(sb)
  except Exception as e:   # pylint: disable=broad-except
    return res.violate('a.is_compatible(b) raised %r for a=%r b=%r' % (e, sa, sb), law='is_compatible-raises', **sig)
  res.label('compatible' if compat else 'incompatible')
  if compat:
    for (mk, tag), ok_a, ok_b in zip(cands, acc_a, acc_b):
      if ok_b and not ok_a:
        cause = ','.join(sorted(_why_narrower(da, db))) or 'other'
        # (recorded, not returned: several recorded findings live here and must not hide the laws below)
        res.violate('a=%r declares itself compatible with b=%r, but b accepts %r and a rejects it' % (
            sa, sb, mk()), law='compatible-but-narrower', cause=cause, **sig)
        break
  if before[1] != repr(sa) or not (before[0] == sa):
    return res.violate('apply changed the spec: %s -> %r' % (before[1], sa), law='apply-mutates-spec', **sig)
  # (2) default is acceptable
  for s, dd, who in ((sa, da, 'a'), (sb, db, 'b')):
    if s.default is not pg.MISSING_VALUE and s.default != pg.MISSING_VALUE:
      try:
        out = s.apply(copy.deepcopy(s.default), allow_partial=True)
      except REJECT as e:
        return res.violate('%s=%r rejects its own default %r: %r' % (who, s, s.default, e),
                           law='default-rejected', spec=_kind_sig(dd))
      try:
        if not pg.eq(out, s.default):
          return res.violate('%s=%r maps its default %r to %r' % (who, s, s.default, out),
                             law='default-not-fixpoint', spec=_kind_sig(dd))
      except Exception:   # pylint: disable=broad-except
        pass
  # (5) extension narrows
  try:
    ext = specs.to_spec(db)     # a fresh copy of b
    ext = ext.extend(sa)     # (extend returns the extended spec, which may be a new object)
    extended = True
  except REJECT:
    extended = False
  except Exception as e:   # pylint: disable=broad-except
    return res.violate('b.extend(a) raised %r for a=%r b=%r' % (e, sa, sb), law='extend-raises-other', **sig)
  res.label('extended' if extended else 'not-extended')
  if extended:
    shared_only = da['t'] in ('dict', 'object') or db['t'] in ('dict', 'object')
    for mk, tag in cands:
      ok_e, re_ = _accepts(ext, mk)
      if not ok_e:
        continue
      if shared_only:
        continue    # field-wise comparison is done on the nested specs by construction of the pair
      # The value the extended spec ends up with (defaults it adds for fields the base requires are filled in:
      # giving a default to an inherited required field is ordinary schema inheritance) must be acceptable to the base.
      ok_a, ra = _accepts(sa, lambda r=re_: _plain_copy(r))
      if ok_a is False:
        return res.violate('b=%r extended base a=%r into %r, which accepts %r (as %r) although the base rejects it (%r)' % (
            sb, sa, ext, mk(), re_, ra), law='extension-wider-than-base', **sig)
    if ext.default != pg.MISSING_VALUE:
      try:
        ext.apply(copy.deepcopy(ext.default), allow_partial=True)
      except REJECT as e:
        return res.violate('extended spec %r (b=%r extending a=%r) rejects its own default: %r' % (ext, sb, sa, e),
                           law='extended-default-rejected', **sig)
    if not shared_only:
      try:
        back = sa.is_compatible(ext)
      except Exception as e:   # pylint: disable=broad-except
        return res.violate('base.is_compatible(extended) raised %r' % e, law='is_compatible-raises', **sig)
      if not back:
        cause = 'enum-extends-non-enum-base' if _enum_vs_base(da, db) else (
            ','.join(sorted(_why_narrower(da, db))) or 'other')
        return res.violate('b=%r extends base a=%r into %r, but the base is not compatible with it' % (sb, sa, ext),
                           law='base-not-compatible-with-extension', cause=cause, **sig)
  if (related or da['t'] == db['t'] or 'union' in (da['t'], db['t']) or 'any' in (da['t'], db['t'])) and split:
    res.nontrivial = True
  return res
