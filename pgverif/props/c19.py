"""C19 — permission-gated code execution never runs a forbidden construct."""
import ast
import contextlib
import io
import itertools

import re

import pyglove as pg
from hypothesis import strategies as st

from pgverif import core

ID = 'C19'
RULE = ('a Python program generated from a statement/expression grammar (every statement kind nested in every other: '
        'assignment forms incl. augmented, annotated, walrus, tuple/subscript targets; if/match; for/while; '
        'try/except/finally, try/except*, raise, assert; with; class/def/lambda/decorators/defaults; import forms; '
        'comprehensions, f-strings, conditional expressions) that starts by touching a sentinel, a permission set (all 256 '
        'subsets for the exhaustive part), optionally an enclosing permission scope and an explicit permission= argument. '
        'An independent table maps unambiguous AST node classes to the 8 permissions: if a required permission is missing, '
        'evaluate must raise CodeError with the sentinel untouched; if everything is granted, result, stdout and '
        'intermediates equal plain exec/eval and raised errors surface as CodeError with the original cause class and line. '
        'Non-trivial: the forbidden construct sits at nesting depth >=2, or the permission set is neither empty nor ALL')
ASSUMPTIONS = [
    'ambiguous nodes (IfExp, comprehensions, with, bare decorators) are generated but never required to be rejected',
    'nested scopes: the outermost scope is the bound that must not be widened; narrowing by an inner scope is allowed but not required',
    'only in-process evaluate() is explored (run(sandbox=True) adds a subprocess hop with identical validation)',
]
BUDGET = {'quick': 12000, 'thorough': 300000}
EXHAUSTIVE_DOMAINS = {
    'gate_matrix': 'each gated construct x each syntactic host position x all 256 permission subsets (parse + run)',
}

FLAGS = ['ASSIGN', 'CONDITION', 'LOOP', 'CALL', 'EXCEPTION', 'CLASS_DEFINITION', 'FUNCTION_DEFINITION', 'IMPORT']
P = pg.coding.CodePermission
FLAG_OBJ = [getattr(P, f) for f in FLAGS]

REQUIRES = {
    ast.Assign: 'ASSIGN', ast.AugAssign: 'ASSIGN', ast.AnnAssign: 'ASSIGN', ast.NamedExpr: 'ASSIGN',
    ast.If: 'CONDITION', ast.Match: 'CONDITION',
    ast.For: 'LOOP', ast.AsyncFor: 'LOOP', ast.While: 'LOOP',
    ast.Call: 'CALL',
    ast.Try: 'EXCEPTION', ast.TryStar: 'EXCEPTION', ast.Raise: 'EXCEPTION', ast.Assert: 'EXCEPTION',
    ast.ClassDef: 'CLASS_DEFINITION',
    ast.FunctionDef: 'FUNCTION_DEFINITION', ast.AsyncFunctionDef: 'FUNCTION_DEFINITION', ast.Lambda: 'FUNCTION_DEFINITION',
    ast.Import: 'IMPORT', ast.ImportFrom: 'IMPORT',
}
AMBIGUOUS = (ast.IfExp, ast.ListComp, ast.SetComp, ast.DictComp, ast.GeneratorExp, ast.With, ast.AsyncWith)

# ---------------------------------------------------------------------------
# Program grammar (JSON) -> source
# ---------------------------------------------------------------------------

EXPR_KINDS = ['const', 'name', 'binop', 'call', 'lambda', 'ifexp', 'listcomp', 'dictcomp', 'genexp', 'fstring', 'walrus',
              'attr', 'subscript', 'div0', 'print']
STMT_KINDS = ['expr', 'assign', 'chainassign', 'chainsub', 'chaintuple', 'augassign', 'annassign', 'annassign2', 'tupleassign', 'subassign', 'if', 'match', 'for', 'while', 'try',
              'trystar', 'raise', 'assert', 'with', 'class', 'def', 'decodef', 'import', 'importfrom', 'pass', 'asyncdef']


def _expr(depth):
  leaf = st.one_of(st.builds(lambda v: {'x': 'const', 'v': v}, st.integers(0, 3)),
                   st.builds(lambda i: {'x': 'name', 'i': i}, st.integers(0, 3)))

  def ext(c):
    return st.one_of(
        st.builds(lambda k, a, b: {'x': k, 'a': a, 'b': b},
                  st.sampled_from(['binop', 'ifexp', 'subscript']), c, c),
        st.builds(lambda k, a: {'x': k, 'a': a},
                  st.sampled_from(['call', 'lambda', 'listcomp', 'dictcomp', 'genexp', 'fstring', 'walrus', 'print']), c),
        st.just({'x': 'attr'}), st.just({'x': 'div0'}))
  return st.recursive(leaf, ext, max_leaves=depth)


def _stmts(depth):
  e = _expr(3)
  simple = st.one_of(
      st.builds(lambda k, x, i: {'s': k, 'e': x, 'i': i},
                st.sampled_from(['expr', 'assign', 'chainassign', 'chainsub', 'chaintuple', 'augassign', 'annassign', 'annassign2', 'tupleassign', 'subassign', 'raise', 'assert']),
                e, st.integers(0, 3)),
      st.sampled_from([{'s': 'import'}, {'s': 'importfrom'}, {'s': 'pass'}]))

  def ext(c):
    body = st.lists(c, min_size=1, max_size=2)
    return st.one_of(
        st.builds(lambda k, x, b, o: {'s': k, 'e': x, 'b': b, 'o': o},
                  st.sampled_from(['if', 'match', 'for', 'while', 'try', 'trystar', 'with', 'class', 'def', 'decodef', 'asyncdef']),
                  e, body, st.one_of(st.just([]), body)))
  return st.lists(st.recursive(simple, ext, max_leaves=depth), min_size=1, max_size=3)


def strategy(tier):
  mask = st.integers(0, 255)
  return st.fixed_dictionaries({
      'prog': _stmts(5),
      'perm': st.one_of(mask, st.just(255), st.just(0)),
      'outer': st.one_of(st.none(), st.none(), mask),
      'inner': st.one_of(st.none(), st.none(), mask),
      'how': st.sampled_from(['arg', 'scope']),
      # a permission scope that was entered and left again (normally or by an exception) before the program runs
      'left': st.one_of(st.none(), st.none(), st.fixed_dictionaries({'mask': st.one_of(mask, st.just(255)), 'exc': st.booleans()})),
  })


NAMES = ['v0', 'v1', 'v2', 'v3']


def render_expr(e):
  if not isinstance(e, dict) or e.get('x') not in EXPR_KINDS:
    raise core.InvalidCase(e)
  k = e['x']
  a = lambda: render_expr(e.get('a'))   # pylint: disable=unnecessary-lambda-assignment
  b = lambda: render_expr(e.get('b'))   # pylint: disable=unnecessary-lambda-assignment
  if k == 'const':
    v = e.get('v', 0)
    if isinstance(v, bool) or not isinstance(v, int):
      raise core.InvalidCase(e)
    return str(v)
  if k == 'name':
    i = e.get('i', 0)
    if isinstance(i, bool) or not isinstance(i, int):
      raise core.InvalidCase(e)
    return NAMES[i % 4]
  if k == 'binop':
    return '(%s + %s)' % (a(), b())
  if k == 'call':
    return 'ident(%s)' % a()
  if k == 'print':
    return 'print(%s)' % a()
  if k == 'lambda':
    return '(lambda: %s)' % a()
  if k == 'ifexp':
    return '(%s if %s else 0)' % (a(), b())
  if k == 'listcomp':
    return '[%s for _q in (1, 2)]' % a()
  if k == 'dictcomp':
    return '{_q: %s for _q in (1, 2)}' % a()
  if k == 'genexp':
    return 'tuple(%s for _q in (1, 2))' % a()
  if k == 'fstring':
    return "f'<{%s}>'" % a()
  if k == 'walrus':
    return '(w := %s)' % a()
  if k == 'attr':
    return 'box.field'
  if k == 'subscript':
    return '(%s, %s)[0]' % (a(), b())
  if k == 'div0':
    return '(1 // 0)'
  raise core.InvalidCase(e)


def render(stmts, ind=0):
  out = []
  pad = '  ' * ind
  if not isinstance(stmts, list) or not stmts:
    raise core.InvalidCase(stmts)
  for s in stmts:
    if not isinstance(s, dict) or s.get('s') not in STMT_KINDS:
      raise core.InvalidCase(s)
    k = s['s']
    e = render_expr(s['e']) if 'e' in s and s['e'] is not None else '0'
    i = s.get('i', 0)
    if isinstance(i, bool) or not isinstance(i, int):
      raise core.InvalidCase(s)
    v = NAMES[i % 4]
    body = lambda: render(s.get('b') or [{'s': 'pass'}], ind + 1)   # pylint: disable=unnecessary-lambda-assignment
    orelse = s.get('o') or []
    if k == 'expr':
      out.append(pad + e)
    elif k == 'assign':
      out.append(pad + '%s = %s' % (v, e))
    elif k == 'chainassign':
      out.append(pad + '%s = t1 = %s' % (v, e))
    elif k == 'chainsub':
      out.append(pad + 'lst[0] = %s = %s' % (v, e))       # a chained assignment whose targets are not all names
    elif k == 'chaintuple':
      out.append(pad + '%s = (t1, t2) = (%s, 1)' % (v, e))
    elif k == 'augassign':
      out.append(pad + '%s += %s' % (v, e))
    elif k == 'annassign':
      out.append(pad + '%s: int = %s' % (v, e))
    elif k == 'annassign2':
      out.append(pad + '%s: box.ann = %s' % (v, e))        # an annotation whose evaluation is observable
    elif k == 'tupleassign':
      out.append(pad + '%s, t1 = %s, 1' % (v, e))
    elif k == 'subassign':
      out.append(pad + 'lst[0] = %s' % e)
    elif k == 'raise':
      out.append(pad + 'raise KeyError(%s)' % e)
    elif k == 'assert':
      out.append(pad + 'assert %s == %s' % (e, e))
    elif k == 'pass':
      out.append(pad + 'pass')
    elif k == 'import':
      out.append(pad + 'import math')
    elif k == 'importfrom':
      out.append(pad + 'from math import pi')
    elif k == 'if':
      out.append(pad + 'if %s:' % e)
      out += body()
      if orelse:
        out.append(pad + 'else:')
        out += render(orelse, ind + 1)
    elif k == 'match':
      out.append(pad + 'match %s:' % e)
      out.append(pad + '  case 1:')
      out += render(s.get('b') or [{'s': 'pass'}], ind + 2)
      out.append(pad + '  case _:')
      out += render(orelse or [{'s': 'pass'}], ind + 2)
    elif k == 'for':
      out.append(pad + 'for _i%d in (1, 2):' % ind)
      out += body()
    elif k == 'while':
      out.append(pad + 'while False:')
      out += body()
    elif k == 'try':
      out.append(pad + 'try:')
      out += body()
      out.append(pad + 'except ZeroDivisionError:')
      out += render(orelse or [{'s': 'pass'}], ind + 1)
      out.append(pad + 'finally:')
      out.append(pad + '  pass')
    elif k == 'trystar':
      out.append(pad + 'try:')
      out += body()
      out.append(pad + 'except* ZeroDivisionError:')
      out += render(orelse or [{'s': 'pass'}], ind + 1)
    elif k == 'with':
      out.append(pad + 'with nullctx:')
      out += body()
    elif k == 'class':
      out.append(pad + 'class C%d:' % ind)
      out.append(pad + '  attr = %s' % e if False else pad + '  pass')
      out += body()
    elif k in ('def', 'decodef', 'asyncdef'):
      if k == 'decodef':
        out.append(pad + '@deco')
      out.append(pad + '%sdef f%d(a=%s):' % ('async ' if k == 'asyncdef' else '', ind, e))
      out += body()
      out.append(pad + '  return a')
  return out


def source_of(prog):
  return '\n'.join(['box.touched'] + render(prog)) + '\n'


# ---------------------------------------------------------------------------


class _Box:
  """Records attribute reads (needs no permission) so that execution is observable."""

  def __init__(self):
    self.log = []

  def __getattr__(self, name):
    if name.startswith('__'):
      raise AttributeError(name)
    self.log.append(name)
    return 7


def _globals():
  box = _Box()
  g = {'v0': 0, 'v1': 1, 'v2': 2, 'v3': 3, 'ident': lambda x=None: x, 'deco': lambda f: f,
       'nullctx': contextlib.nullcontext(), 'box': box, 'lst': [0, 1]}
  return g, box


def required_flags(tree):
  req = set()
  ambiguous = False
  depth_of = {}

  def walk(n, d):
    nonlocal ambiguous
    f = REQUIRES.get(type(n))
    if f:
      req.add(f)
      depth_of[f] = max(depth_of.get(f, 0), d)
    if isinstance(n, AMBIGUOUS):
      ambiguous = True
    for c in ast.iter_child_nodes(n):
      walk(c, d + (1 if isinstance(n, (ast.stmt, ast.expr)) else 0))
  walk(tree, 0)
  return req, ambiguous, depth_of


def to_perm(mask):
  p = P(0)
  for i, f in enumerate(FLAG_OBJ):
    if mask & (1 << i):
      p |= f
  return p


def _names(mask):
  return {FLAGS[i] for i in range(8) if mask & (1 << i)}


def exhaustive(tier):
  constructs = [
      ('v0 = 1', 'stmt'), ('v0 += 1', 'stmt'), ('v0: int = 1', 'stmt'), ('(w := 1)', 'expr'),
      ('lst[0] = v0 = 5', 'stmt'), ('v0 = (t1, t2) = (1, 2)', 'stmt'), ('v0: box.ann = 1', 'stmt'),
      ('if v0:\n  pass', 'stmt'), ('match v0:\n  case _:\n    pass', 'stmt'),
      ('for _k in (1,):\n  pass', 'stmt'), ('while False:\n  pass', 'stmt'),
      ('ident(1)', 'expr'),
      ('try:\n  pass\nexcept KeyError:\n  pass', 'stmt'), ('try:\n  pass\nexcept* KeyError:\n  pass', 'stmt'),
      ('assert True', 'stmt'),
      ('class K:\n  pass', 'stmt'), ('def g():\n  pass', 'stmt'), ('(lambda: 1)', 'expr'),
      ('import math', 'stmt'), ('from math import pi', 'stmt'),
  ]
  hosts = [
      ('top', '{S}'),
      ('if-body', 'if v1:\n{S1}'), ('else-body', 'if v0:\n  pass\nelse:\n{S1}'),
      ('for-body', 'for _h in (1,):\n{S1}'), ('while-body', 'while False:\n{S1}'),
      ('try-body', 'try:\n{S1}\nexcept KeyError:\n  pass'), ('except-body', 'try:\n  pass\nexcept KeyError:\n{S1}'),
      ('finally-body', 'try:\n  pass\nfinally:\n{S1}'),
      ('with-body', 'with nullctx:\n{S1}'), ('class-body', 'class H:\n{S1}'), ('def-body', 'def h():\n{S1}'),
      ('match-body', 'match v1:\n  case _:\n{S2}'),
      ('default-value', 'def h(a={E}):\n  pass'), ('decorator', '@ident({E})\ndef h():\n  pass'),
      ('listcomp-elt', '[{E} for _c in (1,)]'), ('listcomp-cond', '[1 for _c in (1,) if {E}]'),
      ('fstring', "f'{{{E}}}'"), ('fstring-spec', "f'{{1:{{{E}}}}}'"), ('lambda-body', '(lambda: {E})'),
      ('ifexp', '(1 if {E} else 2)'), ('subscript', '(1, 2)[{E}]'), ('call-arg', 'ident({E})'),
      ('dict-value', '{{1: {E}}}'), ('match-guard', 'match v1:\n  case _ if {E}:\n    pass'),
      ('assert-msg', 'assert True, {E}'), ('return-value', 'def h():\n  return {E}'),
      ('class-base', 'class H(ident({E}) or object):\n  pass'), ('annotation', 'def h(a: {E} = 0):\n  pass'),
      # the remaining expression-valued fields of the ast node classes
      ('attr-value', '({E}).__class__'), ('subscript-value', '(({E}), 1)[0]'), ('tuple-elt', '({E}, 1)'),
      ('list-elt', '[{E}]'), ('set-elt', '{{{E}}}'), ('dict-key', '{{{E}: 1}}'), ('boolop', '({E} or 1)'),
      ('unaryop', '(not {E})'), ('compare', '(1 == {E})'), ('binop', '([{E}] + [])'),
      ('yield-value', 'def h():\n  yield {E}'), ('dictcomp-value', '{{1: {E} for _c in (1,)}}'),
      ('setcomp-elt', '{{{E} for _c in (1,)}}'), ('genexp-elt', '[*({E} for _c in (1,))]'),
      ('slice-lower', '(1, 2)[{E}:]'), ('starred', '[*({E},)]'), ('comp-iter', '[1 for _c in ({E},)]'),
      ('with-item', 'with (({E}) and nullctx) or nullctx:\n  pass'), ('attr-of-attr', '({E}).__class__.__name__'),
      ('assign-value', 'v1 = {E}'), ('return-attr', 'def h():\n  return ({E}).__class__'),
  ]

  def ind(text, n):
    return '\n'.join('  ' * n + l for l in text.split('\n'))

  def gen():
    for (c, ckind), (hname, h) in itertools.product(constructs, hosts):
      uses_expr = '{E}' in h
      if uses_expr != (ckind == 'expr'):
        if ckind == 'expr' and not uses_expr:
          c_stmt = c
        else:
          continue
      else:
        c_stmt = c
      src = 'box.touched\n' + h.replace('{S1}', ind(c_stmt, 1)).replace('{S2}', ind(c_stmt, 2)).replace(
          '{S}', c_stmt).replace('{E}', c).replace('{{', '{').replace('}}', '}') + '\n'
      try:
        compile(src, '<c19>', 'exec')     # (also rejects what only the compiler refuses, e.g. a walrus in a comprehension iterable)
      except SyntaxError:
        continue
      step = 1 if tier == 'thorough' else 1
      for mask in range(0, 256, step):
        yield {'src': src, 'perm': mask, 'outer': None, 'inner': None, 'how': 'arg', 'host': hname}
  return {'gate_matrix': gen()}


def execute(case):
  res = core.Result()
  if not isinstance(case, dict):
    raise core.InvalidCase(case)
  if 'src' in case:
    src = case['src']
  else:
    src = source_of(case.get('prog'))
  try:
    tree = ast.parse(src)
  except SyntaxError as e:
    raise core.InvalidCase('generated program does not parse: %r\n%s' % (e, src))
  for key in ('perm', 'outer', 'inner'):
    v = case.get(key)
    if v is not None and (isinstance(v, bool) or not isinstance(v, int) or not 0 <= v <= 255):
      raise core.InvalidCase(case)
  mask, outer, inner = case.get('perm', 255), case.get('outer'), case.get('inner')
  how = case.get('how', 'arg')
  req, ambiguous, depth_of = required_flags(tree)
  # effective bound that must never be exceeded: the outermost scope if any, else the permission itself
  scopes = [m for m in (outer, inner) if m is not None]
  bound = _names(scopes[0]) if scopes else _names(mask)
  if how == 'scope' and not scopes:
    bound = _names(mask)
  # what is certainly granted: the intersection of everything in force
  granted = _names(mask)
  for m in scopes:
    granted &= _names(m)
  missing = req - bound
  res.label('host:%s' % case['host'] if 'host' in case else 'generated',
            'must-refuse' if missing else ('granted' if req <= granted else 'in-between'))
  if (missing and max(depth_of.get(f, 0) for f in missing) >= 2) or (0 < len(_names(mask)) < 8):
    res.nontrivial = True
  g, box = _globals()
  stdout = io.StringIO()
  err = None
  out = None
  try:
    with contextlib.ExitStack() as es:
      if outer is not None:
        es.enter_context(pg.coding.permission(to_perm(outer)))
      left = case.get('left')
      if left is not None:
        if not isinstance(left, dict) or isinstance(left.get('mask'), bool) or not isinstance(left.get('mask'), int) \
            or not 0 <= left['mask'] <= 255:
          raise core.InvalidCase(case)
        try:
          with pg.coding.permission(to_perm(left['mask'])):
            if left.get('exc'):
              raise KeyError('leave the scope by an exception')
        except KeyError:
          pass
      if inner is not None:
        es.enter_context(pg.coding.permission(to_perm(inner)))
      if how == 'scope':
        es.enter_context(pg.coding.permission(to_perm(mask)))
        out = pg.coding.evaluate(src, global_vars=g, outputs_intermediate=True)
      else:
        out = pg.coding.evaluate(src, global_vars=g, permission=to_perm(mask), outputs_intermediate=True)
  except pg.coding.CodeError as e:
    err = e
  except RecursionError:
    raise
  except Exception as e:   # pylint: disable=broad-except
    return res.violate('evaluate raised %r (not a CodeError) for\n%s' % (e, src), law='non-code-error',
                       exc=type(e).__name__)
  touched = bool(box.log)
  sig = {'how': how, 'scoped': str(bool(scopes))}
  conf = 'perm=%s outer=%s inner=%s how=%s' % (sorted(_names(mask)), None if outer is None else sorted(_names(outer)),
                                               None if inner is None else sorted(_names(inner)), how)
  if missing:
    first = sorted(missing)[0]
    if err is None or touched:
      return res.violate('program needs %s which is not granted (%s) but %s; program:\n%s' % (
          sorted(missing), conf, 'it ran to completion' if err is None else 'part of it was executed before the CodeError',
          src), law='forbidden-construct-ran', missing=first, empty_perm=str(not bound), **sig)
    if not isinstance(err.cause, SyntaxError):
      return res.violate('refusal is not reported as a permission error: cause %r; program:\n%s' % (err.cause, src),
                         law='refusal-cause', missing=first, **sig)
    return res
  if not (req <= granted):
    return res   # narrowed by an inner scope or not: both are allowed
  # ---- everything is granted: same behaviour as plain execution
  if err is not None and isinstance(err.cause, SyntaxError) and 'not allowed' in str(err.cause):
    return res.violate('program uses only granted constructs %s (%s) but was refused: %s; program:\n%s' % (
        sorted(req), conf, err.cause, src), law='granted-construct-refused', **sig)
  g2, box2 = _globals()
  rout = io.StringIO()
  rerr = None
  try:
    with contextlib.redirect_stdout(rout):
      exec(compile(src, '<ref>', 'exec'), g2)   # pylint: disable=exec-used
  except Exception as e:   # pylint: disable=broad-except
    rerr = e
  if (rerr is None) != (err is None):
    return res.violate('plain execution %s, evaluate %s; program:\n%s' % (
        'raised %r' % rerr if rerr else 'succeeded', 'raised %r' % err.cause if err else 'succeeded', src),
                       law='outcome-differs', **sig)
  if rerr is not None:
    if type(err.cause) is not type(rerr):
      return res.violate('plain execution raised %r, CodeError.cause is %r; program:\n%s' % (rerr, err.cause, src),
                         law='error-cause-differs', **sig)
    tb = rerr.__traceback__
    line = None
    while tb is not None:
      if tb.tb_frame.f_code.co_filename == '<ref>':
        line = tb.tb_lineno
      tb = tb.tb_next
    if line is not None and err.lineno is not None and err.lineno != line:
      return res.violate('error raised at line %d, CodeError.lineno=%r; program:\n%s' % (line, err.lineno, src),
                         law='error-line-differs', **sig)
    if box.log != box2.log:
      return res.violate('attribute reads before the error differ: %r vs %r; program:\n%s' % (box.log, box2.log, src),
                         law='trace-differs', **sig)
    return res
  # both succeeded: stdout, side effects and intermediates
  # (memory addresses in the repr of functions / objects differ between any two executions)
  _addr = re.compile(r'0x[0-9a-fA-F]+')
  if _addr.sub('0x', str(out.get('__stdout__'))) != _addr.sub('0x', rout.getvalue()):
    return res.violate('stdout %r, plain execution printed %r; program:\n%s' % (out.get('__stdout__'), rout.getvalue(), src),
                       law='stdout-differs', **sig)
  def norm(x):
    """Function objects have no value identity: compare them as 'fn'."""
    if callable(x):
      return 'fn'
    if isinstance(x, (list, tuple)):
      return [norm(y) for y in x]
    if isinstance(x, (set, frozenset)):
      return sorted(repr(norm(y)) for y in x)
    if isinstance(x, dict):
      return sorted((repr(norm(k)), repr(norm(y))) for k, y in x.items())
    if isinstance(x, str) and ' at 0x' in x:
      return 'fn-repr'
    return x
  if box.log != box2.log or norm(g['lst']) != norm(g2['lst']):
    return res.violate('side effects differ: reads %r vs %r, lst %r vs %r; program:\n%s' % (
        box.log, box2.log, g['lst'], g2['lst'], src), law='side-effects-differ', **sig)
  last = tree.body[-1]
  for k in list(NAMES) + ['w', 't1', 'pi']:
    a_has, b_has = k in out or k in g, k in g2
    va = out.get(k, g.get(k))
    vb = g2.get(k)
    if callable(va) or callable(vb):
      continue
    if a_has != b_has or norm(va) != norm(vb):
      kind = type(last).__name__ if last is not None else ''
      return res.violate('variable %s = %r after evaluate, %r after plain execution; program:\n%s' % (k, va, vb, src),
                         law='variable-differs', last_stmt=kind, **sig)
  if isinstance(last, ast.Expr):
    try:
      g3, _ = _globals()
      body = ast.Module(body=tree.body[:-1], type_ignores=[])
      with contextlib.redirect_stdout(io.StringIO()):
        exec(compile(body, '<ref>', 'exec'), g3)   # pylint: disable=exec-used
        want = eval(compile(ast.Expression(last.value), '<ref>', 'eval'), g3)   # pylint: disable=eval-used
      got = out.get('__result__')
      if not callable(want) and norm(got) != norm(want):
        return res.violate('__result__ = %r, value of the last expression is %r; program:\n%s' % (got, want, src),
                           law='result-differs', **sig)
    except Exception:   # pylint: disable=broad-except
      pass
  return res
