"""C20 — HTML views are well-formed and never let data break out of its text position."""
import html.parser
import json

import pyglove as pg
from hypothesis import strategies as st
from pyglove.core.views.html import controls

from pgverif import core
from pgverif.gen import classes
from pgverif.gen import values

ID = 'C20'
RULE = ('two case kinds. (tree) a nested value whose strings, dict keys and class/field documentation contain HTML '
        'metacharacters, quotes, closing-tag fragments, comment and CDATA terminators, character references and script '
        'fragments, rendered with pg.to_html_str under a generated combination of tree-view options; (control) Label / Badge / '
        'LabelGroup / Tooltip / TabControl (both tab positions) / ProgressBar built from hostile strings. Oracles: strict '
        'well-formedness (tags nested and closed against a stack), containment by metamorphosis (the same value with every '
        'hostile character replaced by a benign one of the same length must give the same tag / attribute-name skeleton, no user '
        'data inside script/style), completeness (every key and leaf string is present in the unescaped text or attribute '
        'values unless an option removes it), and the value is unchanged by rendering. Non-trivial: a hostile string in a key, '
        'a documentation or a tooltip position together with a non-default option')
ASSUMPTIONS = [
    'html.parser is the tokenizer; the skeleton is the sequence of (start/end, tag, attribute names)',
    'completeness is checked for strings of length <= 40 and for keys, modulo backslash escapes of repr()',
    'empty-string dict keys are outside the quantifier (non-empty keys)',
]
BUDGET = {'quick': 6000, 'thorough': 150000}

HOSTILE = ['<', '>', '&', '"', "'", '/', '=', '`', '</div>', '</script>', '<!--', '-->', ']]>', '<img src=x onerror=alert(1)>',
           '&amp;', '&#x3c;', '&lt;', '<b>', '</span>', '<script>alert(1)</script>', 'é', '\n', ' ', 'AT&T;', '&copy']
BENIGN = ['a', 'b', 'k', 'x', '1', ' ']
VOID = {'area', 'base', 'br', 'col', 'embed', 'hr', 'img', 'input', 'link', 'meta', 'source', 'track', 'wbr'}


def _text(max_tokens=3):
  return st.lists(st.one_of(st.sampled_from(HOSTILE), st.sampled_from(BENIGN)), min_size=1, max_size=max_tokens).map(''.join)


def strategy(tier):
  keys = st.one_of(_text(2), st.sampled_from(['k', 'm', 'a.b', 'x y']), st.integers(0, 2))
  # (some strings are long: previews and tooltips truncate, which must not skip escaping)
  long_text = _text(4).map(lambda t: (t * (300 // len(t) + 1))[:300])
  leaf = st.one_of(_text(4), _text(4), _text(4), long_text, st.integers(-2, 3), st.sampled_from([None, True, 1.5]))

  def ext(c):
    return st.one_of(
        st.lists(c, max_size=3),
        st.lists(st.tuples(keys, c), max_size=3, unique_by=lambda kv: (type(kv[0]).__name__, kv[0])).map(
            lambda kvs: {'$d': [list(kv) for kv in kvs]}),
        st.sampled_from(['P', 'HDoc', 'W']).flatmap(
            lambda n: st.dictionaries(st.sampled_from(['x', 'y'] if n != 'W' else ['a', 'b']), c, max_size=2).map(
                lambda a: {'$o': n, 'a': a})))
  # objects whose class name / self-chosen display name is hostile data
  named = st.one_of(st.builds(lambda t, x: {'$named': t, 'x': x}, _text(2), _text(2)),
                    st.builds(lambda t, x: {'$renamed': t, 'x': x}, _text(3), _text(2)))
  leaf = st.one_of(leaf, leaf, leaf, leaf, leaf, named)
  val = st.recursive(leaf, ext, max_leaves=8)
  top = st.one_of(
      st.lists(st.tuples(keys, val), min_size=1, max_size=4, unique_by=lambda kv: (type(kv[0]).__name__, kv[0])).map(
          lambda kvs: {'$d': [list(kv) for kv in kvs]}),
      st.lists(val, min_size=1, max_size=4))
  opts = st.fixed_dictionaries({}, optional={
      'collapse_level': st.sampled_from([None, 0, 1, 2]),
      'enable_summary_tooltip': st.booleans(),
      'enable_key_tooltip': st.booleans(),
      'key_style': st.sampled_from(['summary', 'label']),
      'enable_summary': st.sampled_from([None, True, False]),
      'enable_summary_for_str': st.booleans(),
      'max_summary_len_for_str': st.sampled_from([3, 10, 80]),
      'include_keys': st.lists(st.integers(0, 3), max_size=2),
      'exclude_keys': st.lists(st.integers(0, 3), max_size=2),
      'uncollapse': st.lists(st.integers(0, 5), max_size=2),
      'key_color': st.booleans(),
      'summary_color': st.booleans(),
      'name': _text(2),
      'title': _text(2),
  })
  tree = st.fixed_dictionaries({'kind': st.just('tree'), 'v': top, 'opts': opts, 'plain_dict': st.booleans()})
  control = st.fixed_dictionaries({
      'kind': st.just('control'),
      'c': st.sampled_from(['label', 'badge', 'labelgroup', 'tooltip', 'tab', 'progress']),
      't': st.lists(_text(3), min_size=3, max_size=5),
      'pos': st.sampled_from(['top', 'left']),
      'n': st.integers(1, 3)})
  return st.one_of(tree, tree, tree, control)


def benign_of(d):
  """The same descriptor with every hostile character replaced by 'x' (same length)."""
  if isinstance(d, str):
    table = {'<': 'L', '>': 'G', '&': 'M', '"': 'Q', "'": 'S', '/': 'D', '=': 'E', '`': 'T', '!': 'B', '-': 'H',
             ']': 'R', '[': 'O', ';': 'C', '#': 'N', '(': 'U', ')': 'V', '\n': 'W', ':': 'Y'}
    return ''.join(ch if (ch.isalnum() and ch.isascii()) or ch in ' ._' else table.get(ch, 'Z') for ch in d)
  if isinstance(d, list):
    return [benign_of(x) for x in d]
  if isinstance(d, dict):
    return {k: benign_of(v) for k, v in d.items()}
  return d


class Renamed(pg.Object, pg.views.HtmlTreeView.Extension):
  """An object that shows itself under a name of its own (a field value) through the documented summary hook."""
  label: pg.typing.Any()
  x: pg.typing.Any() = None

  def _html_tree_view_summary(self, *, view, name=None, parent=None, root_path=None, **kwargs):
    del name
    return view.summary(self, name=str(self.label), parent=parent, root_path=root_path, **kwargs)


_NAMED = {}


def _named_class(name):
  """A symbolic class whose name is data (classes made by factories, functors made from lambdas)."""
  if name not in _NAMED:
    _NAMED[name] = type(name, (classes.P,), {})
  return _NAMED[name]


def _special(d, plain_dict):
  """Replaces the descriptors only this module knows ($named, $renamed) by built values inside plain containers."""
  if isinstance(d, list):
    return [_special(x, plain_dict) for x in d]
  if isinstance(d, dict):
    if '$named' in d:
      if not isinstance(d['$named'], str) or not d['$named']:
        raise core.InvalidCase(d)
      return _Prebuilt(_named_class(d['$named'])(x=_build(d.get('x'), plain_dict)))
    if '$renamed' in d:
      if not isinstance(d['$renamed'], str):
        raise core.InvalidCase(d)
      return _Prebuilt(Renamed(label=d['$renamed'], x=_build(d.get('x'), plain_dict)))
    return {k: _special(x, plain_dict) for k, x in d.items()}
  return d


class _Prebuilt:
  def __init__(self, v):
    self.v = v


def _build(d, plain_dict):
  d = _special(d, plain_dict)
  if isinstance(d, _Prebuilt):
    return d.v
  # (prebuilt values sit inside containers: build the containers around them)

  def rec(x):
    if isinstance(x, _Prebuilt):
      return x.v
    if isinstance(x, list):
      items = [rec(y) for y in x]
      return items if plain_dict else pg.List(items)
    if isinstance(x, dict) and '$d' in x:
      if not isinstance(x['$d'], list):
        raise core.InvalidCase(x)
      out = {}
      for kv in x['$d']:
        if not (isinstance(kv, list) and len(kv) == 2 and isinstance(kv[0], (str, int)) and not isinstance(kv[0], bool) and kv[0] != ''):
          raise core.InvalidCase(x)
        out[kv[0]] = rec(kv[1])
      return out if plain_dict else pg.Dict(out)
    if isinstance(x, dict) and '$o' in x and _has_prebuilt(x):
      cls = classes.CLASSES.get(x['$o'])
      if cls is None:
        raise core.InvalidCase(x)
      return cls(**{k: rec(y) for k, y in x.get('a', {}).items()})
    return values.build(x, symbolic=not plain_dict)
  if _has_prebuilt(d):
    return rec(d)
  return values.build(d, symbolic=not plain_dict)


def _has_prebuilt(x):
  if isinstance(x, _Prebuilt):
    return True
  if isinstance(x, list):
    return any(_has_prebuilt(y) for y in x)
  if isinstance(x, dict):
    return any(_has_prebuilt(y) for y in x.values())
  return False


class _Skel(html.parser.HTMLParser):
  """Strict tokenizer: skeleton, nesting check, text and attribute values."""

  def __init__(self):
    super().__init__(convert_charrefs=True)
    self.skel = []
    self.stack = []
    self.errors = []
    self.text = []
    self.attr_values = []
    self.raw_text_in = []     # data inside script/style

  def handle_starttag(self, tag, attrs):
    self.skel.append(('S', tag, tuple(k for k, _ in attrs)))
    self.attr_values += [v for _, v in attrs if v]
    if tag not in VOID:
      self.stack.append(tag)

  def handle_startendtag(self, tag, attrs):
    self.skel.append(('SE', tag, tuple(k for k, _ in attrs)))
    self.attr_values += [v for _, v in attrs if v]

  def handle_endtag(self, tag):
    self.skel.append(('E', tag))
    if tag in VOID:
      return
    if not self.stack or self.stack[-1] != tag:
      self.errors.append('end tag </%s> does not match open element %r' % (tag, self.stack[-1] if self.stack else None))
      if tag in self.stack:
        while self.stack and self.stack[-1] != tag:
          self.stack.pop()
        self.stack.pop()
    else:
      self.stack.pop()

  def handle_data(self, data):
    if self.stack and self.stack[-1] in ('script', 'style'):
      self.raw_text_in.append(data)
    else:
      self.text.append(data)

  def handle_comment(self, data):
    self.skel.append(('C',))


def tokenize(s):
  p = _Skel()
  p.feed(s)
  p.close()
  if p.stack:
    p.errors.append('unclosed elements at end of document: %r' % p.stack[-3:])
  return p


def _strings(d, keys_out, leaves_out):
  if isinstance(d, str):
    leaves_out.append(d)
  elif isinstance(d, list):
    for x in d:
      _strings(x, keys_out, leaves_out)
  elif isinstance(d, dict):
    if '$d' in d:
      for k, v in d['$d']:
        if not (isinstance(v, dict) and '$renamed' in v):
          keys_out.append(k)      # (a renamed object shows its own label in place of its key)
        _strings(v, keys_out, leaves_out)
    elif '$named' in d or '$renamed' in d:
      _strings(d.get('x'), keys_out, leaves_out)
    elif '$o' in d:
      for v in d.get('a', {}).values():
        _strings(v, keys_out, leaves_out)


def _render_tree(desc, opts, plain_dict):
  v = _build(desc, plain_dict)
  kw = {}
  top_keys = list(v.keys()) if isinstance(v, dict) else list(range(len(v)))
  for k, x in opts.items():
    if k in ('include_keys', 'exclude_keys'):
      if not isinstance(x, list):
        raise core.InvalidCase(opts)
      kw[k] = [top_keys[i % len(top_keys)] for i in x if isinstance(i, int)] if top_keys else []
    elif k == 'uncollapse':
      paths = [pg.KeyPath(top_keys[i % len(top_keys)]) for i in x if isinstance(i, int)] if top_keys else []
      kw[k] = pg.KeyPathSet(paths)
    elif k in ('key_color', 'summary_color'):
      if x:
        kw[k] = ('red', 'blue')
    else:
      kw[k] = x
  before = pg.format(v, compact=True) if isinstance(v, pg.Symbolic) else repr(v)
  out = pg.to_html_str(v, **kw)
  after = pg.format(v, compact=True) if isinstance(v, pg.Symbolic) else repr(v)
  return out, before == after, kw


_CONTROL_STATE = {'unchanged': True}


def _render_control(case, texts):
  c = case.get('c')
  n = case.get('n', 1)
  t = texts
  # Fields documented as "text or HTML content" (Label.text, Tab.label, Tooltip.content) take markup by
  # design and get benign text; hostile strings go to the data positions: links, ids, names, css classes,
  # styles and symbolic values shown inside a tab.
  if c == 'label':
    ctl = controls.Label('text', tooltip='tip', link=t[2], id=t[0], css_classes=[t[1]])
  elif c == 'badge':
    ctl = controls.Badge('text', tooltip='tip', id=t[0], styles={'color': t[1], t[2]: 'red'})    # value and property name
  elif c == 'labelgroup':
    ctl = controls.LabelGroup([controls.Label('l%d' % i, link=x) for i, x in enumerate(t[:n + 1])], name='group', id=t[1])
  elif c == 'tooltip':
    ctl = controls.Tooltip(t[0], for_element='.x', id=t[1])    # a str content is documented as text (escaped)
  elif c == 'tab':
    ctl = controls.TabControl([controls.Tab('tab', pg.Dict({t[(i + 1) % len(t)]: t[(i + 2) % len(t)]}), name=t[i % len(t)])
                               for i in range(n)], tab_position=case.get('pos', 'top'))
  elif c == 'progress':
    ctl = controls.ProgressBar([controls.SubProgress(name=t[i % len(t)], value=i, styles={t[(i + 1) % len(t)]: 1})
                                for i in range(n)], total=5)
  else:
    raise core.InvalidCase(case)
  before = pg.format(ctl, compact=True)
  html = ctl.to_html_str()
  again = ctl.to_html_str()
  _CONTROL_STATE['unchanged'] = (pg.format(ctl, compact=True) == before) and (again == html)
  return html


def execute(case):
  res = core.Result()
  if not isinstance(case, dict) or case.get('kind') not in ('tree', 'control'):
    raise core.InvalidCase(case)
  kind = case['kind']
  res.label('kind:' + kind)
  sig = {'kind': kind}
  try:
    if kind == 'tree':
      desc, opts = case.get('v'), case.get('opts', {})
      if not isinstance(opts, dict):
        raise core.InvalidCase(case)
      out, unchanged, kw = _render_tree(desc, opts, bool(case.get('plain_dict')))
      k1, k2, l1, l2 = [], [], [], []
      _strings(desc, k1, l1)
      _strings(benign_of(desc), k2, l2)
      if len(set(map(repr, k1))) != len(set(map(repr, k2))):
        res.label('twin-key-collision')      # the benign replacement merged two keys: no metamorphic twin
        return res
      twin, _, _ = _render_tree(benign_of(desc), benign_of(opts), bool(case.get('plain_dict')))
      sig['opts'] = ','.join(sorted(k for k in opts if k not in ('name', 'title')))[:60]
    else:
      texts = case.get('t')
      if not isinstance(texts, list) or len(texts) < 3 or not all(isinstance(x, str) and x for x in texts):
        raise core.InvalidCase(case)
      sig['control'] = str(case.get('c'))
      if case.get('c') == 'tab':
        sig['pos'] = str(case.get('pos'))
      out = _render_control(case, texts)
      unchanged = _CONTROL_STATE['unchanged']
      twin = _render_control(case, benign_of(texts))
  except core.InvalidCase:
    raise
  except RecursionError:
    raise
  except Exception as e:   # pylint: disable=broad-except
    keys_, leaves_ = [], []
    if kind == 'tree':
      _strings(case.get('v'), keys_, leaves_)
    special = any(isinstance(k, str) and any(c in k for c in '.[]') for k in keys_)
    return res.violate('rendering raised %r for %s' % (e, json.dumps(case)[:500]), law='render-raises',
                       exc=type(e).__name__, path_like_key=str(special), **sig)
  if not unchanged:
    return res.violate('rendering modified the value: %s' % json.dumps(case)[:400], law='value-modified', **sig)
  a, b = tokenize(out), tokenize(twin)
  if a.errors:
    return res.violate('%s; case=%s' % (a.errors[0], json.dumps(case)[:500]), law='malformed', **sig)
  if b.errors:
    return res.violate('benign twin is malformed: %s; case=%s' % (b.errors[0], json.dumps(case)[:400]), law='malformed',
                       twin='1', **sig)
  if a.skel != b.skel:
    i = next((j for j, (x, y) in enumerate(zip(a.skel, b.skel)) if x != y), min(len(a.skel), len(b.skel)))
    where = 'token %d: hostile %r vs benign %r' % (i, a.skel[i] if i < len(a.skel) else None,
                                                   b.skel[i] if i < len(b.skel) else None)
    # which kind of user data leaked: look at what is around token i
    ctx = [t for t in a.skel[max(0, i - 4):i] if t[0] == 'S']
    cls = ''
    return res.violate('data changed the element structure (%s); case=%s' % (where, json.dumps(case)[:500]),
                       law='structure-changed-by-data', **sig)
  keys, leaves = [], []
  if kind == 'tree':
    _strings(case['v'], keys, leaves)
  else:
    leaves = list(case['t'])
  user = [s for s in leaves + [k for k in keys if isinstance(k, str)] if len(s) >= 3]
  for chunk in a.raw_text_in:
    for s in user:
      if s in chunk and s not in ''.join(b.raw_text_in):
        return res.violate('user string %r appears inside a script/style element' % s, law='data-in-script', **sig)
  hostile_key = any(isinstance(k, str) and any(c in k for c in '<>&"\'') for k in keys)
  if kind == 'tree' and (hostile_key or any(t in json.dumps(case['v']) for t in ('<', '&'))) and len(case.get('opts', {})) >= 1:
    res.nontrivial = True
  if kind == 'control':
    res.nontrivial = True
  # completeness (tree, when no option removes content)
  if kind == 'tree':
    opts = case.get('opts', {})
    removing = any(k in opts for k in ('include_keys', 'exclude_keys'))
    no_summary = opts.get('enable_summary') is False or opts.get('enable_summary_for_str') is False
    if no_summary and opts.get('key_style', 'summary') == 'summary':
      sig['summary_key_without_summary'] = '1'
    hay = (' '.join(a.text) + ' ' + ' '.join(a.attr_values)).replace('\\', '')
    if not removing:
      for s in leaves:
        if 0 < len(s) <= 40 and s.replace('\\', '') not in hay and repr(s)[1:-1].replace('\\', '') not in hay:
          return res.violate('leaf string %r is not present in the rendered text; case=%s' % (s, json.dumps(case)[:400]),
                             law='leaf-missing', **sig)
      for k in keys:
        if str(k) not in hay:
          return res.violate('key %r is not present in the rendered text; case=%s' % (k, json.dumps(case)[:400]),
                             law='key-missing', **sig)
  return res
