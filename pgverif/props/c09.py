"""C09 — change notification contract and freshness of derived state."""
import itertools
import sys

import pyglove as pg
from hypothesis import strategies as st

from pgverif import core
from pgverif.props import c01
from pgverif.gen import classes
from pgverif.gen import treeops
from pgverif.gen import values

ID = 'C09'
RULE = ('a forest of 1-2 trees mixing objects that override _on_change (LP, LR), objects whose _on_bound is counted '
        '(BQ, BW, BReq, BTyped), and Dict/List nodes with or without onchange_callback (a generated subscription mask), '
        'holding partial objects and oneof/manyof/floatv placeholders; a history of mutating calls (every list/dict/object '
        'mutator, rebind with 1-4 paths at mixed depths, rebind by function), some inside notify_on_change(False) or with '
        'skip_notification=True. After every call the delivered events are compared with the pre/post state of the forest '
        '(who, how often, order, payload paths, old/new values, completeness) and every node\'s derived facts are compared '
        'with the same queries on a freshly constructed deep copy of the tree. Non-trivial: a call that delivered events to >=2 receivers, or '
        'that changed a derived fact of a proper ancestor of the written container')
ASSUMPTIONS = [
    'a location counts as changed when the stored object changed identity (symbolic values) or value (leaves); writing an '
    'equal-but-distinct leaf may or may not be reported, both are accepted',
    'for batches that mix insertions, deletions and replacements in one list the index convention of the payload is not '
    'pinned down by the statement: such payloads are checked for membership of old/new values and for the length balance only',
    'insertions are reported at the index the value has after the call, deletions at the index it had before the call '
    '(the convention of the library\'s own single-item events)',
    'events of calls that raise are not constrained (the statement is about calls that return normally)',
    'freshness is not asserted once a call ran with notifications disabled or skipped (not an "ordinary mutation"); '
    'only "nothing delivered" is asserted for such calls',
    'which Dict/List nodes subscribe is read from the private _onchange_callback attribute (clones made by the library '
    'inherit callbacks and there is no public accessor)',
]
BUDGET = {'quick': 3000, 'thorough': 100000}

MISSING = pg.MISSING_VALUE
T = pg.typing
LOG = []


def _log(kind, node, updates=None):
  LOG.append({'kind': kind, 'node': node, 'path': list(node.sym_path.keys),
              'payload': dict(updates) if updates is not None else None})


class LP(classes.P):
  """Subscribes to changes (overrides _on_change)."""

  def _on_change(self, field_updates):
    _log('change', self, field_updates)


class LR(classes.R):
  """Subscribes to changes and chains to the default handler (so _on_bound fires too)."""

  def _on_change(self, field_updates):
    _log('change', self, field_updates)
    return super()._on_change(field_updates)

  def _on_bound(self):
    super()._on_bound()
    _log('bound', self)


class BQ(classes.Q):
  """Does not subscribe; its _on_bound is counted."""

  def _on_bound(self):
    super()._on_bound()
    _log('bound', self)


class BW(classes.W):

  def _on_bound(self):
    super()._on_bound()
    _log('bound', self)


class BReq(classes.Req):

  def _on_bound(self):
    super()._on_bound()
    _log('bound', self)


class BTyped(classes.Typed):

  def _on_bound(self):
    super()._on_bound()
    _log('bound', self)


CLASS_MAP = {'P': LP, 'Q': BQ, 'R': LR, 'W': BW, 'Req': BReq, 'Typed': BTyped}
SUBSCRIBING_CLASSES = (LP, LR)
BOUND_CLASSES = (LR, BQ, BW, BReq, BTyped)


def _container_cb(updates):
  # the receiver is the Dict/List whose _on_change is calling us
  f = sys._getframe(1)   # pylint: disable=protected-access
  node = f.f_locals.get('self')
  if not isinstance(node, (pg.Dict, pg.List)):
    node = None
  LOG.append({'kind': 'change', 'node': node, 'path': list(node.sym_path.keys) if node is not None else None,
              'payload': dict(updates)})


class Hooks:
  """Builds containers, subscribing the i-th one built iff bit i of the mask is set."""

  def __init__(self, mask):
    self.mask = mask
    self.n = 0

  def _sub(self):
    i = self.n
    self.n += 1
    return bool((self.mask >> (i % 12)) & 1)

  def list(self, v):
    return pg.List(v, onchange_callback=_container_cb) if self._sub() else pg.List(v)

  def dict(self, v):
    return pg.Dict(v, onchange_callback=_container_cb) if self._sub() else pg.Dict(v)

  def cls(self, name):
    return CLASS_MAP.get(name)


OPS = [o for o in treeops.ALL_OPS if o not in ('clone', 'json', 'deepcopy', 'copy')]


def _vdesc():
  return values.vdesc(max_leaves=6, keys=values.KEYS, typed=True, extras=False).flatmap(
      lambda d: st.one_of(st.just(d), st.just(d), st.sampled_from([
          {'$o': 'Req', 'a': {}}, {'$o': 'Req', 'a': {'r': 1}}, {'$hyper': 'oneof', 'c': [1, 2]},
          {'$hyper': 'floatv'}, [{'$o': 'Req', 'a': {}}], {'$d': [['k', {'$hyper': 'oneof', 'c': [1, 2]}]]},
          {'$o': 'P', 'a': {'x': {'$o': 'Req', 'a': {}}}}])))


def _root_desc():
  leafy = _vdesc()

  def wrap(c):
    return st.one_of(
        st.lists(c, max_size=4),
        st.lists(st.tuples(st.sampled_from(values.KEYS), c), max_size=4,
                 unique_by=lambda kv: (type(kv[0]).__name__, kv[0])).map(lambda kvs: {'$d': [list(kv) for kv in kvs]}),
        st.sampled_from(classes.UNTYPED).flatmap(
            lambda name: st.dictionaries(st.sampled_from(classes.FIELDS[name]), c, max_size=3).map(
                lambda a: {'$o': name, 'a': a})))
  return wrap(wrap(st.one_of(leafy, wrap(leafy))))


def strategy(tier):
  max_ops = 12 if tier == 'quick' else 24
  op = treeops.op_strategy(ops=OPS, value=_vdesc()).flatmap(
      lambda o: st.tuples(st.sampled_from([False] * 7 + [True]), st.sampled_from([False] * 9 + [True])).map(
          lambda f: dict(o, sk=f[0], nf=f[1])))
  return st.fixed_dictionaries({
      'roots': st.lists(_root_desc(), min_size=1, max_size=2),
      'mask': st.integers(0, 4095),
      'ops': st.lists(op, min_size=1, max_size=max_ops),
  })


# ---------------------------------------------------------------------------------------------
# snapshots


def _same(a, b):
  if isinstance(a, pg.Symbolic) or isinstance(b, pg.Symbolic):
    return a is b
  if a is b:
    return True
  try:
    return type(a) is type(b) and bool(a == b)
  except Exception:   # pylint: disable=broad-except
    return False


class Snap:
  """id -> (node, root index, path keys, [(key, value)...], parent id)."""

  def __init__(self, roots):
    self.nodes = {}
    self.order = []
    for ri, root in enumerate(roots):
      stack = [(root, None, [])]
      while stack:
        n, pid, true_path = stack.pop()
        if id(n) in self.nodes:
          continue
        kids = [(k, v) for k, v in n.sym_items()]
        # (the path is the one walked from the root, not the one the node reports)
        self.nodes[id(n)] = (n, ri, true_path, kids, pid)
        self.order.append(id(n))
        for k, v in kids:
          if isinstance(v, pg.Symbolic):
            stack.append((v, id(n), true_path + [k]))

  def chain(self, nid):
    """ids of the node and its ancestors, nearest first."""
    out = []
    while nid is not None and nid in self.nodes:
      out.append(nid)
      nid = self.nodes[nid][4]
    return out

  def kids(self, nid):
    return self.nodes[nid][3]

  def value_at(self, nid, key):
    for k, v in self.nodes[nid][3]:
      if k == key and type(k) is type(key):
        return v
    return MISSING


def _subscribes(n):
  if isinstance(n, pg.Object):
    return isinstance(n, SUBSCRIBING_CLASSES)
  return getattr(n, '_onchange_callback', None) is not None   # see ASSUMPTIONS


def _r(v):
  return core.safe_repr(v, 120)


# ---------------------------------------------------------------------------------------------
# derived facts


def facts(n):
  out = {}
  out['partial'] = bool(n.sym_partial)
  out['is_partial'] = bool(pg.is_partial(n))
  out['pure'] = bool(n.sym_puresymbolic)
  out['abstract'] = bool(n.sym_abstract)
  out['deterministic'] = bool(pg.is_deterministic(n))
  out['missing'] = n.sym_missing()
  out['nondefault'] = n.sym_nondefault()
  return out


def _facts_differ(a, b):
  for k in ('partial', 'is_partial', 'pure', 'abstract', 'deterministic'):
    if a[k] != b[k]:
      return k, a[k], b[k]
  for k in ('missing', 'nondefault'):
    da, db = a[k], b[k]
    if list(map(str, da.keys())) != list(map(str, db.keys())) and set(map(str, da.keys())) != set(map(str, db.keys())):
      return k, sorted(map(str, da.keys())), sorted(map(str, db.keys()))
    for kk in da:
      if kk in db and not (pg.eq(da[kk], db[kk]) or (da[kk] == db[kk])):
        return k, {str(kk): _r(da[kk])}, {str(kk): _r(db[kk])}
  return None


def _fact_key(f):
  return (f['partial'], f['pure'], f['deterministic'], tuple(sorted(map(str, f['missing'].keys()))),
          tuple(sorted(map(str, f['nondefault'].keys()))))


def check_fresh(roots):
  """Returns (violation text, signature extras) or None; also {id: fact_key} of every node."""
  keys = {}
  for ri, root in enumerate(roots):
    try:
      # (a deep clone re-creates every node through its constructor, with empty caches, and keeps the value
      # specs of typed containers, which a JSON round trip would drop)
      fresh = root.clone(deep=True)
    except RecursionError:
      raise
    except Exception:   # pylint: disable=broad-except
      # e.g. a placeholder whose candidate list was emptied: no fresh twin can be built
      return 'unavailable', keys
    for n in treeops.preorder(root):
      try:
        mine = facts(n)
      except RecursionError:
        raise
      except Exception as e:   # pylint: disable=broad-except
        return ('computing the derived facts of %s at %r of root %d raised %r' % (type(n).__name__, str(n.sym_path), ri, e),
                {'fact': 'raises', 'node': treeops.kind_of(n)}), keys
      keys[id(n)] = _fact_key(mine)
      twin = fresh.sym_get(n.sym_path) if n.sym_path.keys else fresh
      if type(twin) is not type(n):
        return 'unavailable', keys
      try:
        theirs = facts(twin)
      except RecursionError:
        raise
      except Exception as e:   # pylint: disable=broad-except
        return ('computing the derived facts of a fresh copy of %s at %r of root %d raised %r' % (
            type(n).__name__, str(n.sym_path), ri, e), {'fact': 'raises', 'node': treeops.kind_of(n)}), keys
      d = _facts_differ(mine, theirs)
      if d is not None:
        return ('%s of %s at %r of root %d reports %s, a fresh computation gives %s' % (
            d[0], type(n).__name__, str(n.sym_path), ri, _r(d[1]), _r(d[2])),
                {'fact': d[0] if d[0] not in ('is_partial', 'abstract') else 'partial', 'node': treeops.kind_of(n)}), keys
  return None, keys


# ---------------------------------------------------------------------------------------------
# the notification contract


LIST_EXACT_INSERT = {'append', 'insert', 'extend', 'iadd'}
LIST_EXACT_DELETE = {'pop', 'remove', 'delitem', 'delslice', 'clear'}
LIST_EXACT_REPLACE = {'setitem', 'reverse', 'sort'}


def check_events(name, out, pre, post, log, enabled):
  """Returns (law, detail) for the first broken clause, or None."""
  entries = [e for e in log if e['node'] is None or id(e['node']) in pre.nodes]
  if not enabled:
    if entries:
      e = entries[0]
      return 'delivered-when-disabled', '%s event delivered to %s at %r' % (
          e['kind'], type(e['node']).__name__, e['path'])
    return None
  for e in entries:
    if e['node'] is None:
      return 'receiver-unknown', 'a container callback was invoked from outside a Dict/List _on_change'

  # who may / must receive
  holder_ids = [id(h) for h in out.holders if id(h) in pre.nodes]
  may = set()
  for h in holder_ids:
    may.update(pre.chain(h))
  changed = []        # pre-existing containers whose children changed and that are still in the forest
  lost = False
  for nid in pre.order:
    if nid not in post.nodes:
      continue
    a, b = pre.kids(nid), post.kids(nid)
    if len(a) != len(b) or any(ka != kb or type(ka) is not type(kb) or not _same(va, vb)
                               for (ka, va), (kb, vb) in zip(a, b)):
      changed.append(nid)
  for nid in pre.order:
    if nid not in post.nodes and any(h == nid for h in holder_ids):
      lost = True     # a written container left the forest during the call: expectations are not derivable
  counts = {}
  for e in entries:
    c = counts.setdefault(id(e['node']), {'change': 0, 'bound': 0})
    c[e['kind']] += 1
  for nid, c in counts.items():
    n = pre.nodes[nid][0]
    if c['change'] > 1 or c['bound'] > 1:
      return 'more-than-once', '%s at %r received %d change / %d bound events in one call' % (
          type(n).__name__, pre.nodes[nid][2], c['change'], c['bound'])
    if nid not in may and nid in post.nodes and pre.chain(nid) != post.chain(nid) and any(a in may for a in post.chain(nid)):
      # the receiver was moved by this very call to a place below a written container (e.g. a batch that stores a
      # value and then writes into it): what it may receive is not derivable from the state before the call
      continue
    if nid not in may and nid in post.nodes:
      return 'unaffected-notified', '%s at %r is not an ancestor of a written container but received an event' % (
          type(n).__name__, pre.nodes[nid][2])
  if not lost:
    must = []
    for cid in changed:
      for aid in post.chain(cid):
        if aid in pre.nodes and aid not in must:
          must.append(aid)
    for aid in must:
      n = pre.nodes[aid][0]
      c = counts.get(aid, {'change': 0, 'bound': 0})
      if _subscribes(n) and c['change'] != 1:
        return 'not-notified', '%s at %r subscribes and is an ancestor of a changed container but received no event' % (
            type(n).__name__, post.nodes[aid][2])
      if isinstance(n, BOUND_CLASSES) and c['bound'] != 1:
        return 'not-notified', '%s at %r is an ancestor of a changed container but its _on_bound was not called' % (
            type(n).__name__, post.nodes[aid][2])

  # order: children before parents
  seq = []
  for e in entries:
    if id(e['node']) not in seq:
      seq.append(id(e['node']))
  for i, a in enumerate(seq):
    for b in seq[i + 1:]:
      if a in post.nodes and b in post.nodes and a in post.chain(b)[1:]:
        return 'order', '%r was notified before its descendant %r' % (post.nodes[a][2], post.nodes[b][2])

  # payloads
  abs_payload = {}
  for e in entries:
    if e['kind'] != 'change':
      continue
    r = e['node']
    rpath = e['path']
    if not e['payload']:
      return 'empty-payload', '%s at %r received an empty change event' % (type(r).__name__, rpath)
    mine = {}
    for k, u in e['payload'].items():
      if not isinstance(k, pg.KeyPath) or not isinstance(u, pg.symbolic.FieldUpdate):
        return 'payload-type', 'payload entry %r: %r' % (k, u)
      if list(u.path.keys) != rpath + list(k.keys):
        return 'relative-path', '%s at %r: key %r for the update of %r' % (type(r).__name__, rpath, str(k), str(u.path))
      mine[tuple((type(x).__name__, x) for x in u.path.keys)] = u
    abs_payload[id(r)] = (rpath, mine)

  # reported locations are true locations: the path of an update leads from the root to the written container
  # (skipped when the call changed the length of some list: coordinates inside such a batch are not pinned down)
  resized = any(isinstance(pre.nodes[c][0], pg.List) and len(pre.kids(c)) != len(post.kids(c)) for c in changed)
  if not resized and not lost:
    for rid, (rpath, mine) in abs_payload.items():
      for ap, u in mine.items():
        tid = id(u.target)
        if tid in pre.nodes and tid in post.nodes and pre.nodes[tid][2] == post.nodes[tid][2]:
          want = post.nodes[tid][2]
          if list(u.path.keys[:-1]) != want and isinstance(u.target, (pg.Dict, pg.List)):
            return 'payload-path-untrue', 'update reported at %r, the written container is at %r' % (str(u.path), want)
          if isinstance(u.target, pg.Object) and list(u.path.keys[:-1]) != want:
            return 'payload-path-untrue', 'update reported at %r, the written object is at %r' % (str(u.path), want)
  # true old / new values, per written container
  for rid, (rpath, mine) in abs_payload.items():
    per_list = {}
    for ap, u in mine.items():
      tgt = u.target
      key = u.path.keys[-1] if u.path.keys else None
      if id(tgt) not in pre.nodes or id(tgt) not in post.nodes:
        continue
      if isinstance(tgt, pg.List):
        per_list.setdefault(id(tgt), []).append((key, u))
        continue
      want_old, want_new = pre.value_at(id(tgt), key), post.value_at(id(tgt), key)
      if not _same(u.old_value, want_old):
        return 'payload-old', 'update of %r reports old value %s, it was %s' % (str(u.path), _r(u.old_value), _r(want_old))
      if not _same(u.new_value, want_new):
        return 'payload-new', 'update of %r reports new value %s, it is %s' % (str(u.path), _r(u.new_value), _r(want_new))
    for lid, items in per_list.items():
      a = [v for _, v in pre.kids(lid)]
      b = [v for _, v in post.kids(lid)]
      ins = [(k, u) for k, u in items if u.old_value == MISSING and not u.new_value == MISSING]
      dele = [(k, u) for k, u in items if u.new_value == MISSING and not u.old_value == MISSING]
      rep = [(k, u) for k, u in items if not u.old_value == MISSING and not u.new_value == MISSING]
      if len(ins) - len(dele) != len(b) - len(a):
        return 'list-balance', 'list at %r went from %d to %d items, the event reports %d insertions and %d deletions' % (
            post.nodes[lid][2], len(a), len(b), len(ins), len(dele))
      # (the entries of one batch are applied in order, each index meaning the list as the previous entries left it:
      # a value may be put in by one entry and taken out again by a later one - both are then reported)
      put_in = [u.new_value for _, u in items if not u.new_value == MISSING]
      taken_out = [u.old_value for _, u in items if u.new_value == MISSING and not u.old_value == MISSING]
      for k, u in items:
        if not u.old_value == MISSING and not any(_same(u.old_value, x) for x in a) and not any(u.old_value is x for x in put_in):
          return 'payload-old', 'update of %r reports old value %s which the list did not hold' % (str(u.path), _r(u.old_value))
        if not u.new_value == MISSING and not any(_same(u.new_value, x) for x in b) and not any(u.new_value is x for x in taken_out):
          return 'payload-new', 'update of %r reports new value %s which the list does not hold' % (str(u.path), _r(u.new_value))
      pure = sum(1 for g in (ins, dele, rep) if g) == 1
      if len(ins) > 1 and name not in LIST_EXACT_INSERT:
        pure = False      # several insertions of one batch are applied one after the other: indices are not pinned
      if pure:
        for k, u in ins:
          if not (isinstance(k, int) and 0 <= k < len(b) and _same(b[k], u.new_value)):
            return 'payload-index', 'insertion reported at %r, the value %s is not there after the call' % (str(u.path), _r(u.new_value))
        for k, u in dele:
          if not (isinstance(k, int) and 0 <= k < len(a) and _same(a[k], u.old_value)):
            return 'payload-index', 'deletion reported at %r, the value %s was not there before the call' % (str(u.path), _r(u.old_value))
        for k, u in rep:
          if not (isinstance(k, int) and 0 <= k < len(a) and k < len(b) and _same(a[k], u.old_value) and _same(b[k], u.new_value)):
            return 'payload-index', 'replacement reported at %r: %s -> %s does not match the list before/after' % (
                str(u.path), _r(u.old_value), _r(u.new_value))

  # completeness: every changed location reaches every subscribed ancestor that was notified
  if not lost:
    for cid in changed:
      c = pre.nodes[cid][0]
      a, b = pre.kids(cid), post.kids(cid)
      cpath = post.nodes[cid][2]
      locs = []
      if isinstance(c, pg.List):
        # replay: undoing exactly the reported insertions / deletions / replacements must give the other state
        av, bv = [v for _, v in a], [v for _, v in b]
        for aid in post.chain(cid):
          if aid not in abs_payload:
            continue
          _, mine = abs_payload[aid]
          mine_here = {u.path.key: u for u in mine.values() if u.target is c}
          who = '%s at %r' % (type(pre.nodes[aid][0]).__name__, post.nodes[aid][2])
          if not mine_here:
            return 'location-missing', 'the event for %s reports no location of the changed list at %r' % (who, cpath)
          if name in LIST_EXACT_INSERT:
            rest = [v for i, v in enumerate(bv) if i not in mine_here]
            if len(rest) != len(av) or not all(_same(x, y) for x, y in zip(rest, av)):
              return 'location-missing', 'the event for %s reports insertions at %r of the list at %r; removing them from the ' \
                  'new content does not give the old content' % (who, sorted(mine_here), cpath)
          elif name in LIST_EXACT_DELETE:
            rest = [v for i, v in enumerate(av) if i not in mine_here]
            if len(rest) != len(bv) or not all(_same(x, y) for x, y in zip(rest, bv)):
              return 'location-missing', 'the event for %s reports deletions at %r of the list at %r; removing them from the ' \
                  'old content does not give the new content' % (who, sorted(mine_here), cpath)
          elif name in LIST_EXACT_REPLACE and len(av) == len(bv):
            for i in range(len(av)):
              if i not in mine_here and not _same(av[i], bv[i]):
                return 'location-missing', 'the event for %s lacks the changed location %r' % (
                    who, str(pg.KeyPath(cpath + [i])))
      else:
        ka, kb = dict((('%s:%r' % (type(k).__name__, k)), (k, v)) for k, v in a), dict((('%s:%r' % (type(k).__name__, k)), (k, v)) for k, v in b)
        for kk in list(ka) + [x for x in kb if x not in ka]:
          va = ka[kk][1] if kk in ka else MISSING
          vb = kb[kk][1] if kk in kb else MISSING
          if not _same(va, vb):
            locs.append((ka.get(kk) or kb.get(kk))[0])
      for aid in post.chain(cid):
        if aid not in abs_payload:
          continue
        _, mine = abs_payload[aid]
        # (matched by written container and key, not by path: inside a batch that also shifts a list above
        # the container, the coordinate system of the reported paths is not pinned down)
        for loc in locs:
          if not any(u.target is c and u.path.keys and u.path.key == loc and type(u.path.key) is type(loc)
                     for u in mine.values()):
            return 'location-missing', 'the event for %s at %r lacks the changed location %r' % (
                type(pre.nodes[aid][0]).__name__, post.nodes[aid][2], str(pg.KeyPath(cpath + [loc])))

  # consistency between receivers of the same call
  ids = list(abs_payload)
  for x in ids:
    for y in ids:
      if x == y or x not in post.nodes or y not in post.nodes or y not in post.chain(x)[1:]:
        continue
      # y is a proper ancestor of x: both must have been told the same updates for x's subtree
      px, mx = abs_payload[x]
      py, my = abs_payload[y]
      mine_ids = {id(u) for u in mx.values()}
      under = {id(u) for u in my.values() if id(u.target) in post.nodes and x in post.chain(id(u.target))}
      extra = {id(u) for u in my.values() if id(u.target) not in post.nodes}     # targets that left the forest: unknown
      if not (under <= mine_ids <= (under | extra)):
        return 'inconsistent-payloads', 'receiver at %r was told %r, its ancestor at %r was told %r for the same subtree' % (
            px, sorted(str(u.path) for u in mx.values()), py,
            sorted(str(u.path) for u in my.values() if id(u) in under))
  return None


# ---------------------------------------------------------------------------------------------


def execute(case):
  res = core.Result()
  if not isinstance(case, dict) or not isinstance(case.get('roots'), list) or not isinstance(case.get('ops'), list):
    raise core.InvalidCase(case)
  mask = case.get('mask', 0)
  if isinstance(mask, bool) or not isinstance(mask, int) or mask < 0:
    raise core.InvalidCase(case)
  hooks = Hooks(mask)
  roots = []
  for d in case['roots']:
    try:
      v = values.build(d, hooks=hooks)
    except (TypeError, ValueError, KeyError) as e:
      raise core.InvalidCase(d) from e
    if not isinstance(v, pg.Symbolic):
      raise core.InvalidCase(d)
    roots.append(v)
  if not roots:
    raise core.InvalidCase(case)

  def builder(d):
    try:
      return values.build(d, hooks=hooks)
    except (TypeError, ValueError, KeyError) as e:
      raise core.InvalidCase(d) from e

  bad, fkeys = check_fresh(roots)
  tainted = False
  if bad == 'unavailable':
    raise core.InvalidCase(case)
  if bad is not None:
    return res.violate('after construction: ' + bad[0], law='stale', op='construct', **bad[1])
  for op in case['ops']:
    if not isinstance(op, dict):
      raise core.InvalidCase(op)
    pre = Snap(roots)
    del LOG[:]
    prebuilt_val = []

    def prebuilt():
      v = builder(op.get('v'))
      del LOG[:]      # construction of the new value is not part of the call
      return v
    out = treeops.apply_op(roots, op, allow_move=True, direct_inplace=False, prebuilt=prebuilt, builder=builder)
    del prebuilt_val
    log = list(LOG)
    del LOG[:]
    if out.status == 'skip':
      continue
    name = out.name
    rebind_family = name.startswith('rebind')
    disabled = bool(op.get('nf')) or (bool(op.get('sk')) and rebind_family)
    res.label('op:' + name, 'status:' + out.status)
    if disabled:
      res.label('disabled')
      tainted = True
    post = Snap(roots)
    inv, detail = c01.walk_check(roots)
    if inv is not None:
      # events carry paths: a tree whose nodes report wrong paths cannot deliver true locations
      return res.violate('after the call the tree is not well-formed: %s | op=%s' % (detail, treeops.describe(op)),
                         law='tree-integrity', inv=inv, op=name, **({'nf': '1'} if op.get('nf') else {}))
    sig = {'op': name}
    if op.get('nf'):
      sig['nf'] = '1'
    if op.get('sk') and rebind_family:
      sig['sk'] = '1'
    if out.status == 'ok':
      bad = check_events(name, out, pre, post, log, not disabled)
      if bad is not None:
        return res.violate('%s | op=%s' % (bad[1], treeops.describe(op)), law=bad[0], **sig)
      receivers = {id(e['node']) for e in log if e['node'] is not None and id(e['node']) in pre.nodes}
      if len(receivers) >= 2 and not disabled:
        res.nontrivial = True
        res.label('receivers>=2')
      if any(len(e['payload'] or {}) >= 2 for e in log):
        res.label('batch-payload')
    if not tainted:
      bad, nkeys = check_fresh(roots)
      if bad == 'unavailable':
        res.label('fresh-unavailable')
        tainted = True
        continue
      if bad is not None:
        if out.status == 'exc':
          sig['after'] = 'exc:' + type(out.exc).__name__
        return res.violate('%s | op=%s' % (bad[0], treeops.describe(op)), law='stale', **sig, **bad[1])
      for h in out.holders:
        if id(h) in post.nodes:
          for aid in post.chain(id(h))[1:]:
            if aid in fkeys and aid in nkeys and fkeys[aid] != nkeys[aid]:
              res.nontrivial = True
              res.label('ancestor-facts-changed')
      fkeys = nkeys
  res.label('roots:%d' % len(roots), 'tainted' if tainted else 'fresh-checked')
  return res


# ---------------------------------------------------------------------------------------------
# exhaustive sub-domain: every single call of a catalogue on a fixed tree, for every subscription mask

FIXED_ROOT = {'$o': 'P', 'a': {
    'x': {'$d': [['k', [1, {'$o': 'Req', 'a': {}}, {'$hyper': 'oneof', 'c': [1, 2]}, [3, 4]]],
                 ['m', {'$o': 'Q', 'a': {'x': [5, {'$o': 'R', 'a': {'x': {'$d': [['n', 1]]}}}]}}]]},
    'y': {'$o': 'W', 'a': {'a': [{'$o': 'Req', 'a': {}}, 2, 1]}}}}
FIXED_VALUES = [7, {'$o': 'Req', 'a': {}}, [{'$hyper': 'oneof', 'c': [1, 2]}, 8], {'$d': [['k', 1], ['m', {'$o': 'Req', 'a': {}}]]}]
EXHAUSTIVE_DOMAINS = {
    'single_calls': 'every op of the catalogue (%d names) x every node of one fixed 4-level tree it applies to x index choices x '
                    'values x enabled/disabled x subscription masks (quick: 2x2x2x4, thorough: 4x4x2x8)' % len(OPS),
}


def _single_calls(tier):
  masks = [0, 0b111111111111, 0b010101010101, 0b101010101010] if tier == 'quick' else \
      [0, 0b111111111111, 0b010101010101, 0b101010101010, 0b001100110011, 0b110011001100, 0b000111000111, 0b111000111000]
  idx = [(0, None, None, 0), (1, 3, None, 5)] if tier == 'quick' else [(0, None, None, 0), (1, 3, None, 5), (-1, None, 2, 2), (2, 0, -1, 4)]
  vals = FIXED_VALUES[:2] if tier == 'quick' else FIXED_VALUES
  nodes = treeops.forest_nodes([values.build(FIXED_ROOT, hooks=Hooks(0))])
  pairs = [(name, t) for name in OPS for t, n in enumerate(nodes) if treeops.applicable(name, n)]
  for (name, t), (i, j, s, m), vi, nf, mask in itertools.product(pairs, idx, range(len(vals)), (False, True), masks):
    yield {'roots': [FIXED_ROOT], 'mask': mask, 'ops': [{
        'op': name, 't': t, 'i': i, 'j': j, 's': s, 'k': (i + vi) % len(values.KEYS), 'v': vals[vi], 'src': None, 'sv': True,
        'nf': nf, 'm': m, 'sk': False,
        'locs': [{'i': 3, 'm': 1, 'v': 9}, {'i': 4, 'm': 4, 'v': None}] if m >= 4 else []}]}


def exhaustive(tier):
  return {'single_calls': _single_calls(tier)}
