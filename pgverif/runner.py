"""Check runner: ./check <ID> <quick|thorough> | ./check <ID> --replay <file>.

Exit codes: 0 property held on everything explored (known findings listed),
1 at least one violation not listed in known_findings.json (VIOLATION lines),
2 harness error / inconclusive (never a VIOLATION line).
"""
import argparse
import collections
import glob
import importlib
import json
import multiprocessing
import os
import signal
import sys
import time
import traceback

from pgverif import core

ROOT = os.path.dirname(os.path.dirname(os.path.abspath(__file__)))
CASE_TIMEOUT_S = 60          # per case, in CPU seconds of the process (independent of how loaded the machine is)
CASE_WALL_LIMIT_S = 600      # wall-clock guard against a case that blocks without using the CPU


def _arm_case_timers():
  signal.setitimer(signal.ITIMER_PROF, CASE_TIMEOUT_S)
  signal.setitimer(signal.ITIMER_REAL, CASE_WALL_LIMIT_S)


def _disarm_case_timers():
  signal.setitimer(signal.ITIMER_PROF, 0)
  signal.setitimer(signal.ITIMER_REAL, 0)


class CaseTimeout(BaseException):
  pass


def _alarm(signum, frame):
  raise CaseTimeout()


def load_module(pid):
  return importlib.import_module('pgverif.props.' + pid.lower())


def load_findings(pid):
  path = os.path.join(ROOT, 'known_findings.json')
  if not os.path.exists(path):
    return []
  with open(path) as f:
    data = json.load(f)
  return [e for e in data.get('findings', []) if e.get('property') == pid]


def read_case(path):
  with open(path) as f:
    data = json.load(f)
  if isinstance(data, dict) and 'case' in data and 'property' in data:
    return data['case']
  return data


class Collector:
  """Per-process accumulation of what a run covered."""

  def __init__(self, mod, active):
    self.mod = mod
    self.active = active                 # list of (finding id, signature)
    self.evaluations = 0
    self.nontrivial = set()
    self.labels = collections.Counter()
    self.known_hits = collections.Counter()
    self.unknown = {}                    # sig_key -> [sig, detail, case, count]
    self.samples = []
    self.largest = None
    self.errors = []
    self.slowest = (0.0, None)

  def handle(self, case, source='generated'):
    case = core.canon(case)
    self.evaluations += 1
    _arm_case_timers()
    t_case = time.time()
    try:
      res = self.mod.execute(case)
    except CaseTimeout:
      self.errors.append({'kind': 'timeout', 'case': case, 'trace': ''})
      return None
    except core.InvalidCase:
      self.errors.append({'kind': 'exception', 'case': case,
                          'trace': traceback.format_exc()[-3000:]})
      return None
    except Exception as e:   # harness bug or undeclared library exception
      # An exception that escapes from inside the library (innermost frame in the repository) on a call the
      # check did not expect to fail is a behaviour of the code under test: report it as a violation, bucketed
      # by (exception class, innermost library function).  Anything else is a harness error.
      tb = traceback.extract_tb(e.__traceback__)
      repo = os.path.realpath(os.environ.get('PGV_REPO', '/repo'))
      inner = tb[-1] if tb else None
      if inner is not None and os.path.realpath(inner.filename).startswith(repo + os.sep):
        res = core.Result()
        res.violate('the library raised %s: %s (in %s, %s:%d) on a call the check expects to succeed; case=%s' % (
            type(e).__name__, str(e)[:300], inner.name, os.path.relpath(inner.filename, repo), inner.lineno,
            json.dumps(case)[:600]), law='library-raises', exc=type(e).__name__, where=inner.name)
      else:
        self.errors.append({'kind': 'exception', 'case': case,
                            'trace': traceback.format_exc()[-3000:]})
        return None
    finally:
      _disarm_case_timers()
      dt = time.time() - t_case
      if dt > self.slowest[0]:
        self.slowest = (dt, case)
    for lab in res.labels:
      self.labels[lab] += 1
    if res.nontrivial:
      self.labels['nontrivial'] += 1
      self.nontrivial.add(core.case_hash(case))
      shown = res.sample if res.sample is not None else case
      if len(self.samples) < 3:
        self.samples.append(shown)
      size = len(json.dumps(case))
      if self.largest is None or size > self.largest[0]:
        self.largest = (size, shown)
    for sig, detail in res.violations:
      hit = None
      for fid, fsig in self.active:
        if core.sig_matches(fsig, sig):
          hit = fid
          break
      if hit is not None:
        self.known_hits[hit] += 1
        continue
      key = core.sig_key(sig)
      size = len(json.dumps(case))
      cur = self.unknown.get(key)
      if cur is None:
        self.unknown[key] = [sig, detail, case, 1, size, source]
      else:
        cur[3] += 1
        if size < cur[4]:
          cur[1], cur[2], cur[4], cur[5] = detail, case, size, source
    return res

  def summary(self):
    samples = list(self.samples)
    if self.largest is not None:
      samples.append(self.largest[1])
    return {
        'evaluations': self.evaluations,
        'nontrivial': self.nontrivial,
        'labels': self.labels,
        'known_hits': self.known_hits,
        'unknown': self.unknown,
        'samples': samples,
        'errors': self.errors[:5],
        'slowest': self.slowest,
    }


def run_shard(args):
  pid, tier, seed, shard, nshards, n_examples, active = args
  signal.signal(signal.SIGALRM, _alarm)
  signal.signal(signal.SIGPROF, _alarm)
  sys.setrecursionlimit(3000)
  try:
    mod = load_module(pid)
    col = Collector(mod, active)
    exhaustive_sizes = {}
    if hasattr(mod, 'exhaustive'):
      for name, it in mod.exhaustive(tier).items():
        count = 0
        for i, case in enumerate(it):
          if i % nshards == shard:
            col.handle(case, 'exhaustive:' + name)
            count += 1
        exhaustive_sizes[name] = count
    if n_examples > 0 and hasattr(mod, 'strategy'):
      from hypothesis import given, settings, seed as hseed, HealthCheck, Phase
      strat = mod.strategy(tier)

      @hseed(core.derive_seed(seed, pid, shard))
      @settings(max_examples=n_examples, phases=[Phase.generate],
                database=None, deadline=None, derandomize=False,
                report_multiple_bugs=False,
                suppress_health_check=list(HealthCheck))
      @given(strat)
      def test(case):
        col.handle(case)
      test()
    out = col.summary()
    out['exhaustive_sizes'] = exhaustive_sizes
    return out
  except BaseException:   # pylint: disable=broad-except
    return {'fatal': traceback.format_exc()[-4000:]}


def _shrink_job(args):
  pid, key, case, active = args
  signal.signal(signal.SIGALRM, _alarm)
  signal.signal(signal.SIGPROF, _alarm)
  sys.setrecursionlimit(3000)
  mod = load_module(pid)

  def still_fails(c):
    _arm_case_timers()
    try:
      res = mod.execute(core.canon(c))
    except CaseTimeout:
      return False
    except core.InvalidCase:
      return False
    except Exception:   # pylint: disable=broad-except
      return False
    finally:
      _disarm_case_timers()
    return any(core.sig_key(s) == key for s, _ in res.violations)
  best, evals = core.shrink(case, still_fails)
  return key, best, evals


def activate_findings(mod, pid, findings, out):
  """Replays the witness of each open finding; returns the active ones."""
  active = []
  for e in findings:
    if e.get('status') != 'open':
      continue
    wpath = os.path.join(ROOT, e['witness'])
    try:
      res = mod.execute(core.canon(read_case(wpath)))
    except Exception:   # pylint: disable=broad-except
      out.append('HARNESS-ERROR: witness of %s does not execute:\n%s'
                 % (e['id'], traceback.format_exc()[-1500:]))
      continue
    if any(core.sig_matches(e['signature'], s) for s, _ in res.violations):
      active.append((e['id'], e['signature']))
      print('KNOWN-FINDING: property=%s %s [%s]' % (pid, e['what'], e['id']),
            flush=True)
  return active


def main(argv=None):
  ap = argparse.ArgumentParser()
  ap.add_argument('pid')
  ap.add_argument('tier', nargs='?', default=os.environ.get('VERIF_TIER', 'quick'))
  ap.add_argument('--replay')
  ap.add_argument('--shards', type=int,
                  default=int(os.environ.get('PGV_SHARDS', '16')))
  ap.add_argument('--examples', type=int,
                  default=int(os.environ.get('PGV_EXAMPLES', '0')))
  a = ap.parse_args(argv)
  pid = a.pid.upper()
  tier = a.tier if a.tier in ('quick', 'thorough') else 'quick'
  seed = int(os.environ.get('VERIF_SEED', '1') or '1')
  t0 = time.time()
  signal.signal(signal.SIGALRM, _alarm)
  signal.signal(signal.SIGPROF, _alarm)
  sys.setrecursionlimit(3000)
  try:
    mod = load_module(pid)
  except Exception:   # pylint: disable=broad-except
    print('HARNESS-ERROR: cannot import property module\n' + traceback.format_exc())
    return 2
  notes = []
  findings = load_findings(pid)
  active = activate_findings(mod, pid, findings, notes)
  if notes:
    print('\n'.join(notes))
    return 2

  if a.replay:
    col = Collector(mod, active)
    res = col.handle(read_case(a.replay), 'replay')
    if col.errors:
      print('HARNESS-ERROR: %s' % col.errors[0]['trace'])
      return 2
    for sig, detail in res.violations:
      print('violation signature=%s detail=%s' % (core.sig_key(sig), detail))
    if col.unknown:
      print('VIOLATION property=%s replay=%s' % (pid, a.replay))
      return 1
    print('replay ok (labels=%s, known_hits=%s)' % (sorted(res.labels), dict(col.known_hits)))
    return 0

  import shutil
  shutil.rmtree(os.path.join(ROOT, 'replays', pid), ignore_errors=True)

  # Corpus replay (regression inputs incl. witnesses of fixed findings).
  corpus = Collector(mod, active)
  corpus_files = sorted(glob.glob(os.path.join(ROOT, 'corpus', pid, '*.json')))
  violations = []     # (sig, detail, replay path)
  for path in corpus_files:
    before = set(corpus.unknown)
    corpus.handle(read_case(path), 'corpus')
    for key in set(corpus.unknown) - before:
      sig, detail = corpus.unknown[key][0], corpus.unknown[key][1]
      violations.append((sig, detail, os.path.relpath(path, ROOT)))
  if corpus.errors:
    print('HARNESS-ERROR: corpus case failed to execute: %s\n%s' % (
        json.dumps(corpus.errors[0]['case'])[:500], corpus.errors[0]['trace']))
    return 2

  budget = a.examples or mod.BUDGET[tier]
  nshards = max(1, a.shards)
  per = (budget + nshards - 1) // nshards if budget else 0
  jobs = [(pid, tier, seed, i, nshards, per, active) for i in range(nshards)]
  ctx = multiprocessing.get_context('fork')
  with ctx.Pool(min(nshards, os.cpu_count() or 1), maxtasksperchild=1) as pool:
    outs = pool.map(run_shard, jobs, chunksize=1)
    fatal = [o['fatal'] for o in outs if 'fatal' in o]
    if fatal:
      print('HARNESS-ERROR: shard crashed\n' + fatal[0])
      return 2
    evaluations = corpus.evaluations
    nontrivial = set(corpus.nontrivial)
    labels = collections.Counter(corpus.labels)
    known_hits = collections.Counter(corpus.known_hits)
    unknown = {}
    samples = corpus.summary()['samples'][:2]
    errors = []
    exhaustive_sizes = collections.Counter()
    slowest = max([o.get('slowest', (0.0, None)) for o in outs], key=lambda x: x[0])
    for o in outs:
      evaluations += o['evaluations']
      nontrivial |= o['nontrivial']
      labels.update(o['labels'])
      known_hits.update(o['known_hits'])
      errors.extend(o['errors'])
      exhaustive_sizes.update(o['exhaustive_sizes'])
      if len(samples) < 8:
        samples.extend(o['samples'][:2] if len(o['samples']) > 2 else o['samples'])
      for key, rec in o['unknown'].items():
        cur = unknown.get(key)
        if cur is None:
          unknown[key] = list(rec)
        else:
          cur[3] += rec[3]
          if rec[4] < cur[4]:
            cur[1], cur[2], cur[4] = rec[1], rec[2], rec[4]
    corpus_keys = {core.sig_key(s) for s, _, _ in violations}
    todo = [(pid, key, rec[2], active) for key, rec in unknown.items()
            if key not in corpus_keys][:48]
    shrunk = {}
    if todo:
      for key, best, evals in pool.map(_shrink_job, todo, chunksize=1):
        shrunk[key] = (best, evals)

  # A case that exceeds the per-case time limit is inconclusive, not an error (a loaded machine is enough
  # to cause it); many of them, or any other exception, is a harness error.
  timeouts = [e for e in errors if e['kind'] == 'timeout']
  n_timeouts = len(timeouts)
  if timeouts and n_timeouts <= max(2, evaluations // 100) and n_timeouts == len(errors):
    os.makedirs(os.path.join(ROOT, 'replays', pid), exist_ok=True)
    with open(os.path.join(ROOT, 'replays', pid, 'inconclusive_timeout.json'), 'w') as f:
      json.dump({'property': pid, 'case': timeouts[0]['case'], 'kind': 'timeout'}, f, indent=1)
    print('INCONCLUSIVE: %d case(s) exceeded the per-case limit of %ds (first saved to replays/%s/inconclusive_timeout.json)' % (
        n_timeouts, CASE_TIMEOUT_S, pid))
    errors = []
  if errors:
    os.makedirs(os.path.join(ROOT, 'replays', pid), exist_ok=True)
    p = os.path.join(ROOT, 'replays', pid, 'harness_error.json')
    with open(p, 'w') as f:
      json.dump({'property': pid, 'case': errors[0]['case'],
                 'kind': errors[0]['kind'], 'trace': errors[0]['trace']}, f, indent=1)
    print('HARNESS-ERROR: %d case(s) failed to execute (%s); first saved to %s\n%s' % (
        len(errors), errors[0]['kind'], os.path.relpath(p, ROOT), errors[0]['trace']))
    return 2

  for key, rec in sorted(unknown.items()):
    if key in corpus_keys:
      continue
    sig, detail, case, count = rec[0], rec[1], rec[2], rec[3]
    if key in shrunk:
      case = shrunk[key][0]
      try:
        res = mod.execute(core.canon(case))
        for s, d in res.violations:
          if core.sig_key(s) == key:
            detail = d
      except Exception:   # pylint: disable=broad-except
        pass
    os.makedirs(os.path.join(ROOT, 'replays', pid), exist_ok=True)
    name = '%s.json' % core.case_hash({'k': key}).hex()
    p = os.path.join(ROOT, 'replays', pid, name)
    with open(p, 'w') as f:
      json.dump({'property': pid, 'signature': sig, 'detail': detail,
                 'occurrences': count, 'seed': seed, 'tier': tier,
                 'case': case}, f, indent=1)
    violations.append((sig, detail, os.path.relpath(p, ROOT)))

  wall = time.time() - t0
  ex_domains = getattr(mod, 'EXHAUSTIVE_DOMAINS', {})
  evidence = {
      'property_id': pid,
      'tier': tier,
      'seed': seed,
      'level': getattr(mod, 'LEVEL', 'exploration'),
      'coverage': {
          'evaluations': evaluations,
          'distinct_nontrivial': len(nontrivial),
          'rule': mod.RULE,
          'samples': samples[:8],
          'exhaustive': False,
          'exhaustive_subdomains': {
              k: {'cases': int(v), 'what': ex_domains.get(k, '')}
              for k, v in exhaustive_sizes.items()},
          'classes': dict(sorted(labels.items())),
          'known_hits': dict(known_hits),
          'known_findings_active': [fid for fid, _ in active],
          'corpus_cases': len(corpus_files),
          'generated_budget': budget,
          'shards': nshards,
          'slowest_case_s': round(slowest[0], 2),
          'timeouts_inconclusive': n_timeouts,
      },
      'assumptions': list(getattr(mod, 'ASSUMPTIONS', [])),
      'wall_s': round(wall, 2),
      'violations': len(violations),
  }
  # Evidence describes /repo as it is; runs against a scratch tree or a deliberately broken tree
  # (tools/try_seeded.sh, tools/confirm_seeded.sh) must not overwrite it.
  if not os.environ.get('PGV_NO_EVIDENCE') and os.environ.get('PGV_REPO', '/repo') == '/repo':
    os.makedirs(os.path.join(ROOT, 'evidence'), exist_ok=True)
    with open(os.path.join(ROOT, 'evidence', pid + '.json'), 'w') as f:
      json.dump(evidence, f, indent=1, sort_keys=True)
  print('%s %s seed=%d evaluations=%d distinct_nontrivial=%d known_hits=%s wall=%.1fs' % (
      pid, tier, seed, evaluations, len(nontrivial), dict(known_hits), wall))
  if slowest[0] > 10:
    print('slowest case %.1fs: %s' % (slowest[0], json.dumps(slowest[1])[:400]))
  top = sorted(labels.items(), key=lambda kv: -kv[1])[:25]
  print('classes: ' + ', '.join('%s=%d' % kv for kv in top))
  for sig, detail, path in violations:
    print('  signature=%s\n  detail=%s' % (core.sig_key(sig), detail[:600]))
    print('VIOLATION property=%s replay=%s' % (pid, path), flush=True)
  return 1 if violations else 0


if __name__ == '__main__':
  sys.exit(main())
