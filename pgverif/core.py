"""Core data types shared by every property module.

A *case* is plain JSON data.  `execute(case)` of a property module returns a
`Result`: the oracle violations found (each with a structural *signature*),
the labels used to read generator quality, and whether the case was non-trivial
by the property's stated rule.
"""
import hashlib
import json
import time


class InvalidCase(Exception):
  """The case data cannot be interpreted (only arises while shrinking)."""


class Result:
  __slots__ = ('violations', 'labels', 'nontrivial', 'sample')

  def __init__(self):
    self.violations = []      # list of (signature dict, detail str)
    self.labels = set()
    self.nontrivial = False
    self.sample = None        # optional compact rendering for evidence

  def violate(self, detail='', **signature):
    sig = {k: str(v) for k, v in signature.items()}
    self.violations.append((sig, str(detail)[:2000]))
    return self

  def label(self, *names):
    self.labels.update(names)


def sig_key(sig):
  return json.dumps(sig, sort_keys=True)


def sig_matches(entry_sig, sig):
  """A known-finding signature matches when all its items appear in `sig`."""
  return all(sig.get(k) == str(v) for k, v in entry_sig.items())


def canon(case):
  """Canonical JSON form: what is generated is what a replay file holds."""
  return json.loads(json.dumps(case))


def case_hash(case):
  return hashlib.blake2b(
      json.dumps(case, sort_keys=True).encode('utf-8', 'surrogatepass'),
      digest_size=8).digest()


def derive_seed(seed, pid, shard):
  h = hashlib.sha256(f'{seed}:{pid}:{shard}'.encode()).hexdigest()
  return int(h[:12], 16)


# ---------------------------------------------------------------------------
# Generic shrinker over JSON cases (collect-then-shrink).
# ---------------------------------------------------------------------------

def _size(x):
  return len(json.dumps(x))


def _candidates(x):
  """Yield structurally simpler variants of x (one edit each)."""
  if isinstance(x, list):
    n = len(x)
    # drop chunks, large first
    k = n
    while k >= 1:
      for i in range(0, n, k):
        if n - min(k, n - i) != n:
          yield x[:i] + x[i + k:]
      k //= 2
    for i, v in enumerate(x):
      for c in _candidates(v):
        yield x[:i] + [c] + x[i + 1:]
  elif isinstance(x, dict):
    for k, v in x.items():
      for c in _candidates(v):
        y = dict(x)
        y[k] = c
        yield y
  elif isinstance(x, bool):
    if x:
      yield False
  elif isinstance(x, int):
    if x != 0:
      yield 0
      if abs(x) > 1:
        yield x // 2 if x > 0 else -((-x) // 2)
        yield x - 1 if x > 0 else x + 1
      if x < 0:
        yield -x
  elif isinstance(x, float):
    if x != 0.0:
      yield 0.0
      if x == x and abs(x) != float('inf') and x != int(x):
        yield float(int(x))
  elif isinstance(x, str):
    if x:
      yield ''
      if len(x) > 1:
        yield x[:len(x) // 2]
        yield x[len(x) // 2:]
        yield x[1:]
        yield x[:-1]


def shrink(case, still_fails, max_evals=600, max_seconds=40.0):
  """Greedy descent: accept any simpler variant for which still_fails holds."""
  t0 = time.time()
  evals = 0
  best = case
  improved = True
  while improved:
    improved = False
    for cand in _candidates(best):
      if evals >= max_evals or time.time() - t0 > max_seconds:
        return best, evals
      if _size(cand) >= _size(best):
        continue
      evals += 1
      try:
        ok = still_fails(cand)
      except InvalidCase:
        ok = False
      if ok:
        best = cand
        improved = True
        break
  return best, evals


def safe_repr(x, limit=600):
  """repr that survives objects whose own formatting raises."""
  try:
    return repr(x)[:limit]
  except Exception as e:   # pylint: disable=broad-except
    return '<unprintable %s: %s>' % (type(x).__name__, type(e).__name__)
