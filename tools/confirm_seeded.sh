#!/bin/bash
# usage: tools/confirm_seeded.sh <src dir> <PID> <name>
# Confirms a seeded change in a scratch worktree (demo fails with / passes without, suite passes with),
# runs the property's quick check against it, and stores it under /verif/seeded/<name>/.
src=$1; pid=$2; name=$3
wt=/tmp/confirm_$name
git -C /repo worktree add -q --detach $wt HEAD || exit 2
cd $wt
res_apply=ok
git apply "$src/patch.diff" || res_apply=fail
if [ $res_apply = ok ]; then
  PYTHONPATH=$wt /venv/bin/python "$src/demo.py" >/tmp/confirm_$name.demo_with 2>&1; demo_with=$?
  PYTHONPATH=$wt /venv/bin/python -m pytest -q -p no:cacheprovider -n 6 pyglove 2>&1 | tail -6 > /tmp/confirm_$name.tests
  failed=$(grep -E "^FAILED" /tmp/confirm_$name.tests | grep -v -E "file_system_test|text_color_test|test_thread_safety" | wc -l)
  summary=$(tail -1 /tmp/confirm_$name.tests)
  check_out=$(cd /verif && PGV_REPO=$wt ./check $pid quick 2>&1 | grep -E "^$pid|VIOLATION|HARNESS" | head -6)
  git checkout -q -- .
  PYTHONPATH=$wt /venv/bin/python "$src/demo.py" >/tmp/confirm_$name.demo_without 2>&1; demo_without=$?
else
  demo_with=-1; demo_without=-1; failed=-1; summary="patch does not apply"; check_out=""
fi
cd /verif
git -C /repo worktree remove --force $wt
mkdir -p seeded/$name
cp "$src/patch.diff" "$src/demo.py" seeded/$name/ 2>/dev/null
/venv/bin/python - "$src/meta.json" seeded/$name/meta.json "$pid" "$demo_with" "$demo_without" "$failed" "$summary" "$check_out" "$(git -C /repo log --format=%h -1)" <<'PY'
import json,sys
src,dst,pid,dw,dwo,failed,summary,check_out,head=sys.argv[1:10]
try: m=json.load(open(src))
except Exception: m={}
m['property']=pid
m['confirmed']={'repo_head':head,'demo_exit_with_change':int(dw),'demo_exit_without_change':int(dwo),
  'unexpected_test_failures_with_change':int(failed),'suite_summary_with_change':summary,
  'commands':['git apply patch.diff (scratch worktree of /repo HEAD)','PYTHONPATH=<wt> /venv/bin/python demo.py','PYTHONPATH=<wt> /venv/bin/python -m pytest -q -p no:cacheprovider -n 6 pyglove','PGV_REPO=<wt> ./check %s quick'%pid,'git checkout -- . ; demo.py again']}
m['check_quick_output']=check_out.splitlines()
m['detected_by_quick']=('VIOLATION' in check_out)
json.dump(m,open(dst,'w'),indent=1)
print(dst, 'demo_with',dw,'demo_without',dwo,'unexpected_failures',failed,'detected',m['detected_by_quick'], '|', summary)
PY
rm -f /tmp/confirm_$name.*
