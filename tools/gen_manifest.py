#!/usr/bin/env python3
"""Regenerates MANIFEST.json from the table below (python3 tools/gen_manifest.py)."""
import json
import os

ROOT = os.path.dirname(os.path.dirname(os.path.abspath(__file__)))
ALL = ['C%02d' % i for i in range(1, 21)]

# id -> (technique, level text, level note, design ref)
CHECKS = {
    'C01': (
        'model-based stateful PBT (Hypothesis-generated op histories over forests; invariant walk after every step)',
        'Generated-input search: histories of the full List/Dict/Object mutating and copying API (incl. in-place '
        'operators, slices, rebind forms, moves between trees, notify-off scopes) with a parent/path/lookup/uniqueness '
        'invariant walked after every step and a graveyard check for removed nodes. Exploration, not proof.',
        'Oracle uses only sym_items/sym_parent/sym_path/sym_get; root-into-own-subtree moves excluded; typed trees are covered under C03.',
        'DESIGN.md section 3 C01'),
    'C02': (
        'differential PBT against Python list/dict (Hypothesis op histories + exhaustive slice sub-domain)',
        'Differential search: the same generated history (full list/dict API incl. slices with every sign/step, in-place '
        'operators run as statements on a slot, update/|=/setdefault/pop/popitem, rebind extensions) is run on a pg.List/pg.Dict '
        'without value spec and on a plain list/dict; result, error class, contents and order, len, == and to_json are compared '
        'after every step. The slice sub-domain (start/stop in {None,-7..7}, step in {None,-3..3}, lengths 0..5, read/assign/delete) '
        'is enumerated exhaustively in every run. Exploration, not proof.',
        'Reference = the CPython list/dict of this interpreter; translation table encodes only the documented extensions; NaN excluded.',
        'DESIGN.md section 3 C02'),
    'C06': (
        'algebraic-law PBT over perturbation-closed value pools (Hypothesis), all pairs and triples per pool',
        'Generated pools of 2-8 values (primitives, None, MISSING, lists, dicts, tuples of comparable primitives, objects of 5 '
        'classes incl. subclasses, nestings) closed under perturbations that make equal-but-not-identical and one-leaf-apart '
        'values common; reflexivity/symmetry/transitivity of pg.eq, ne==not eq, eq=>hash, ==/!=/hash() agreement for opted-in '
        'classes, lt never raises, trichotomy, gt==swapped lt, lt transitivity and sort validity checked on every pair/triple. Exploration.',
        'NaN excluded; tuples restricted to one comparable primitive kind per case (the stated quantifier); hash law only where pg.hash is defined.',
        'DESIGN.md section 3 C06'),
    'C09': (
        'model-based stateful PBT: generated mutation histories over trees of logging receivers; event log compared with the '
        'pre/post state of the forest; derived facts compared with a freshly constructed deep copy; exhaustive single-call sub-domain',
        'Trees mix objects overriding _on_change, objects whose _on_bound is counted and Dict/List with or without onchange_callback '
        '(generated subscription mask), holding partial objects and placeholders. After every call of the full mutating API '
        '(incl. batched rebind at mixed depths, rebind by function, in-place operators, clear/sort/reverse/popitem, notify-off scopes, '
        'skip_notification) the delivered events are checked for: only ancestors of written containers, every subscribed ancestor of a '
        'changed container, at most once, children before parents, relative keys, true old/new values, complete locations, agreement '
        'between receivers; nothing delivered when disabled. is_partial/sym_missing/sym_nondefault/sym_puresymbolic/is_deterministic '
        'of every node are compared with a fresh deep copy after every step. One fixed tree x every op x every applicable node is '
        'enumerated exhaustively. Exploration, not proof.',
        'Index convention of payloads is only pinned for single-kind list events; freshness not asserted after notify-off calls; events of failing calls unconstrained.',
        'DESIGN.md section 3 C09'),
    'C16': (
        'schedule fuzzing: real worker threads under a harness-owned deterministic scheduler (sys.settrace line hook + cooperative '
        'lock shim); Hypothesis-generated worker programs and schedules; exhaustive single-preemption placement',
        '2-4 worker threads iterate the same named pg.sample loop of the in-memory backend with a shared algorithm (Sweeping, Random, '
        'regularized_evolution, Deduping) and generated per-trial actions (done, skip, several measurements, end_loop, abandon) and '
        'group assignments (incl. the falsy groups 0 and ""). Every source line of the tuning/geno/evolution modules is a scheduling '
        'point; the next worker is chosen by the generated schedule (random choices, bursts, preemption points), so a run is a pure '
        'function of the case; locks of the code under test are cooperative, so deadlocks are detected instead of hanging. Oracle at '
        'quiescence: one study object, ids 1..n once, n==N unless ended/abandoned, one group per trial, no new trial for a group with '
        'a pending one, feedback to the algorithm exactly once per feasible completed trial and never for skipped ones, algorithm and '
        'summary counters add up, no duplicate sweep point, best trial maximal and feasible. Every single preemption point of 4 fixed '
        'programs is enumerated in every run (pairs in thorough). Exploration of schedules, not proof.',
        'Granularity is source lines of the listed files; preemption inside a line or C code is not explored.',
        'DESIGN.md section 3 C16 and 1.6'),
    'C17': (
        'model-based PBT: generated well-nested scope programs on 1-3 real threads under a harness-owned deterministic schedule; '
        'reference interpreter of the documented nesting rules; exhaustive nestings of the flag scopes',
        'Programs of enter/exit events over 20 scope managers (7 flag scopes, contextual_override with cascade, str/repr_format, '
        'view_options, coding.context, coding.permission incl. the empty permission, detour, apply_wrappers, dynamic_evaluate per '
        'thread / process-wide with exit_fn, load_types_for_deserialization, timeit) with exceptions raised at generated points and '
        'caught 0-2 levels further out; 2-3 threads are interleaved at event granularity by a generated schedule. After every event '
        'the probe vector of the executing thread (public getters, str()/repr() of a Formattable, object creation under detour, '
        'TimeIt.status) must equal the reference interpreter, and after every block exit it must equal the vector recorded before '
        'entering (independent of the reference). All nestings of depth <=3 of the flag scopes (6174 programs) and all ordered pairs '
        'of managers with canonical arguments x exit modes are enumerated in every run. Exploration, not proof.',
        'Process-wide managers only in single-thread programs; interleaving only at harness yield points (the managers hold no locks and do not block).',
        'DESIGN.md section 3 C17'),
    'C18': (
        'differential PBT against the interpreter: generated signatures materialised with exec, generated binding/call patterns; '
        'exhaustive product of small signature shapes x canonical patterns',
        'Signatures (positional with trailing defaults, *rest, keyword-only with/without defaults, **kw, annotations) are generated as '
        'data, materialised as a def and a class __init__ returning everything received, and wrapped by pg.functor(), pg.symbolize '
        '(function / class) and pg.wrap. Patterns bind arguments at construction, later (rebind, attribute assignment, del, batched '
        'rebind with nested paths) and at call time (override_args, ignore_extra_args), directly or after clone / deep clone / JSON. '
        'The original callable invoked by the interpreter with the effective arguments is the reference: same result or same '
        'exception class; sym_init_args, specified_args and inspect.signature(cls.__init__) must describe the effective arguments. '
        'All signatures with <=2 positional, <=1 keyword-only, +-*rest, +-**kw x ~700 canonical patterns are enumerated in every run. Exploration.',
        'Positional-only parameters and annotation enforcement are outside the modelled domain; error messages are not compared.',
        'DESIGN.md section 3 C18'),
    'C10': (
        'PBT with reference models (key lists, Python sets, reference tree walk) + exhaustive small key alphabet',
        'Three generated case kinds: key sequences over hostile keys (dots, brackets, digits-only strings, negative ints, unicode) '
        'checked for parse/format round trip with key types and for +, parent, -, is_relative_to and ordering against Python lists; '
        'nested values with hostile dict keys checked for utils.traverse / pg.traverse / pg.query visiting every node once with a path '
        'that looks the node up, flatten/canonicalize inverse and rebind-by-function hitting exactly the selected nodes; KeyPathSet '
        'op histories (add/remove/union/intersection/difference/update/rebase/...) against Python sets incl. aliasing probes. '
        'All key sequences of length <=3 over a 10-symbol alphabet are enumerated for parse/format in every run. Exploration.',
        'String keys non-empty with nested brackets (the quantifier); ordering laws asserted only where int and str keys are not compared at one position (documented str() compare).',
        'DESIGN.md section 3 C10'),
    'C03': (
        'model-based stateful PBT over generated schemas (Hypothesis) with spec-directed valid / near-miss value samplers',
        'Generated schemas over the whole value-spec vocabulary (ranges, enums, nested list/tuple/dict/object/union specs, '
        'noneable/default/frozen, dynamic keys; list, dict and dynamically created pg.Object roots, possibly partial) and histories '
        'of valid and near-miss writes through every write path (accessors, rebind incl. multi-path batches, list/dict mutators, '
        'slices, in-place operators, allow_partial / notify_on_change scopes). After every step the state is re-validated by the library '
        'spec on a deep clone and by an independent acceptance predicate; a write the predicate classifies invalid must raise '
        'Type/Value/KeyError and leave to_json unchanged. Exploration, not proof.',
        'Type check on; transforms/regex not generated; independent predicate is conservative (answers unknown for unmodelled conversions); frozen modelled for primitives, lists of primitives, schema-less dicts.',
        'DESIGN.md section 3 C03'),
    'C04': (
        'algebraic-law PBT over related spec pairs (Hypothesis) + exhaustive Int-range / List-size lattices',
        'Generated pairs of value specs (b derived from a by one or more parameter perturbations, or unrelated) with candidate '
        'values from valid and near-miss samplers of both: apply idempotent and spec-preserving, default acceptable, '
        'is_compatible sound on sampled values, extend() result narrower than the base, keeps an acceptable default and stays '
        'compatible with the base. All ordered pairs of an Int-range x noneable x frozen lattice and of a List-size lattice are '
        'enumerated in every run. Exploration: containment is witnessed by sampled boundary values, not proved.',
        'Regex excluded (documented as unchecked); acceptance = apply does not raise Type/Value/KeyError; Dict/Object extension compared on nested specs.',
        'DESIGN.md section 3 C04'),
    'C07': (
        'stateful PBT: generated trees + flag prefix + clone mode + post-clone mutation history; node-by-node comparison and non-interference oracle',
        'Generated trees (typed/untyped classes, tuples, opaque leaves, pg.Ref to symbolic and plain targets, hyper placeholders, DNA, '
        'partial objects) with sealed / accessor_writable / allow_partial flags set by generated prefix ops; clone(deep), clone(shallow), '
        'copy.copy, copy.deepcopy and clone(override) are checked for equality, class, value-spec and flag fidelity node by node, '
        'well-formedness of the clone (C01 walk), original untouched, identity-disjointness (Ref targets shared, leaves shared only by '
        'shallow clones), and after every mutation of either side (full op surface, opaque-leaf mutation) the other side is unchanged. Exploration.',
        'Snapshot oracle built on sym_items; mixed sealing (unsealed node under a sealed one) compared at the root only; allow_partial compared on the cloned value itself.',
        'DESIGN.md section 3 C07'),
    'C08': (
        'exhaustive configuration matrix on fixed tree shapes + Hypothesis-generated trees; reference model of the documented flag/scope precedence',
        'Every mutating op of the list/dict/object API (canonical arguments) x 5 protection modes (seal(), sealed at construction, '
        'as_sealed scope, accessor_writable=False, allow_writable_accessors scope) x stacks of nested scope overrides over '
        '{True, False, None} x target level (node, child, grandchild, rebind from the parent) is enumerated on 6 fixed tree shapes '
        '(quick: stacks of depth <=2 per flag; thorough: the full product), plus generated trees. A 6-line reference of the documented '
        'precedence decides what must be refused; refused writes must raise WritePermissionError and leave tree and flags unchanged, '
        'allowed writes must not be refused, no op may change protection flags of surviving nodes, and removing the protection '
        'restores mutability. Exploration with an exhaustive finite sub-domain.',
        'Innermost scope wins, None defers to the object flag; under disabled accessors only accessor assignment/deletion and rebind are specified; values are built outside the scopes.',
        'DESIGN.md section 3 C08'),
    'C05': (
        'round-trip PBT over generated serializable values (4 routes) + model-based stateful PBT of file-system histories',
        'Generated values (typed/untyped trees, tuples, int keys, special floats, control/unicode text, classes, functions, lambdas, '
        'value specs, DNASpecs, DNAs, hyper placeholders, partial objects; format-reserved markers as a separately labelled class) are '
        'round-tripped through to_json/from_json, to_json_str/from_json_str, pickle and deepcopy and compared for NaN-aware equality, '
        'type, hash, schema-backed behaviour and tree well-formedness. Generated histories of save/overwrite/load, jsonl and raw line '
        'sequences (write/append/read), writefile/readfile, rm, mkdirs, listdir, exists over a small path set on the in-memory '
        '(incl. names starting with letters of the prefix) and the standard file system are compared with a model dict after every '
        'step and at the end. Exploration.',
        'Values not serializable by design (local functions, opaque leaves) are not generated; NaN equals NaN in the comparison.',
        'DESIGN.md section 3 C05'),
    'C11': (
        'differential PBT against a brute-force reference enumerator; exhaustive enumeration of small DNASpec shapes + Hypothesis shapes beyond',
        'Every DNASpec shape with <=2 decision points (k<=3, <=3 candidates, every distinct x sorted mode, conditional sub-space at the '
        'first or last candidate) is enumerated in every run (thorough: also a slice of the <=3 decision point domain), larger shapes are '
        'generated. For each: iter_dna count == space_size, strictly increasing, distinct, no successor after the last, first_dna, and '
        'the flat-number set equals a reference written from the definition (itertools product filtered by distinct / sorted); members '
        'are accepted and one-step corruptions (index +-1 / negative / = n, swap, duplicate, drop, extra, float/str/None values, extra or '
        'missing child nodes) that are not members are rejected by from_numbers, validate and use_spec; random_dna returns members; '
        'Sweeping proposes the iter_dna sequence and stops. Exploration with an exhaustive finite sub-domain.',
        'Float/custom points: sampler/validator half only; spaces bounded to <=400 members (quick exhaustive: <=36); bool indices not used as corruptions (True == 1).',
        'DESIGN.md section 3 C11'),
    'C12': (
        'round-trip + metamorphic PBT over generated specs, DNAs and chains of DNA-producing operations',
        'Generated DNASpec shapes (names, distinct literal values, floats, conditional nesting), a valid DNA (enumerated member or '
        'random_dna) and a chain of library operations that produce DNAs from DNAs (next_dna, random_dna(previous_dna), clone, JSON, '
        'from_numbers, from_dict, mutators Uniform/Swap, recombinators Uniform/Sample/KPoint/Segmented/PMX/Order/Cycle/Average). '
        'For each DNA: flat numbers, nested numbers, to_dict under key x value x multi-choice x inactive styles and compact/verbose JSON '
        'rebuild an equal DNA; lookups by decision point, id and name return the decision of an independent reference walk of '
        '(shape, numbers); every exported view equals that of a DNA rebuilt from the flat numbers (alignment). Exploration.',
        'Literal values distinct; custom decision points not generated; full view product on the first and last DNA of a chain, a 20-view subset in between.',
        'DESIGN.md section 3 C12'),
    'C13': (
        'differential PBT against a reference substitution + round-trip (encode o decode) + metamorphic checks over generated templates',
        'Generated object templates nesting oneof / manyof (every distinct x sorted mode) / floatv placeholders inside dicts, lists, '
        'untyped and typed objects (placeholders bound to field value specs, incl. out-of-range bindings that must be refused), '
        'conditional sub-templates, close-but-distinguishable candidates (list prefixes, nested key sets) and `where` filters. All DNAs '
        'of spaces <=40 (else a prefix + random ones): decode equals an independent reference substitution over (template, flat numbers), '
        'leaves no placeholder (or only filtered-out ones), encode(decode(dna)) == dna, template JSON unchanged by both, repeated decodes '
        'equal and node-disjoint, pg.iter yields space_size pairwise different values, materialize with the dict view agrees. Exploration.',
        'Candidates distinguishable by construction; custom/evolvable placeholders not generated (user code).',
        'DESIGN.md section 3 C13'),
    'C14': (
        'grammar-based PBT over operator expressions (Hypothesis) with closure / membership / alignment / non-interference / determinism oracles + exhaustive selector-count matrix',
        'Generated DNASpec shapes (all manyof modes, conditionals, floats), populations of 1-8 valid DNAs with single/multi-objective '
        'fitness and operator expressions from a typed grammar over both mutators, all nine recombinators, all seven selectors and the '
        'composition operators (>>, |, &, +, -, ^, *, **, [], ~, -, if_true/if_false, for_each, flatten, with_prob, Choice, '
        'until_change, Conditional); half of the cases are a single operator for dense per-class coverage. Oracles: every output DNA '
        'validates, is a member of the brute-force reference set when finite, is bound and aligned (views equal a rebuild from flat '
        'numbers); selector-only expressions return input members by identity in the documented number; parents and the population '
        'list are unchanged; two fresh instances of the seeded expression give equal outputs; operators must not raise on valid '
        'parents. Selector counts are enumerated exhaustively (selector x n x population size x weights x flags). Exploration.',
        'All stochastic leaves seeded; recombinators get two parents; Top/Bottom use an explicit key after DNA-producing ops.',
        'DESIGN.md section 3 C14'),
    'C15': (
        'crash-point enumeration (every k in 0..N) over generated algorithm configurations and spaces; differential against the uninterrupted run',
        'Generated configurations (Sweeping, seeded Random, Deduping over them with max_duplicates / hash_fn variants, regularized '
        'evolution, hill climb, NSGA2 with tuple rewards, NEAT, Deduping over evolution with and without auto reward), finite spaces, run '
        'length N<=14 and feedback pipeline depth w<=4. For EVERY crash point k in 0..N a fresh instance set up on the same space '
        'recovers the first k history records (DNA + metadata + reward or None) persisted through to_json_str/from_json_str and is '
        'compared with the uninterrupted run at k: proposal/feedback counts, population with fitness, de-duplication memory; for '
        'Sweeping / seeded Random / Deduping over them also the next 4 proposals. Level: fault enumeration over crash points inside a '
        'generated (not exhaustive) configuration space.',
        'A crash = abandoning the instance; history is the only carrier; generation counters / RNG state of selectors not compared; dedup memory read from Deduping._cache; rewards strictly positive.',
        'DESIGN.md section 3 C15'),
    'C19': (
        'grammar-based program generation + exhaustive construct x host x 256-permission matrix; independent AST classifier and differential against plain exec/eval',
        'Every gated construct (17 forms incl. augmented/annotated/walrus assignment, match, try/except*, lambda, both import forms) x '
        '28 syntactic host positions (bodies of every compound statement, default values, decorators, comprehension element and '
        'condition, f-string field and format spec, lambda body, match guard, class base, annotation, ...) x all 256 permission subsets '
        'is enumerated in every run; larger programs are generated from a statement/expression grammar with optional enclosing '
        'permission scopes and explicit permission arguments. An independent node-class -> permission table decides what must be '
        'refused (CodeError before anything runs: a sentinel attribute read at the top of every program must not happen); when all '
        'required permissions are granted, stdout, side effects, intermediate variables, the result, and for raising programs the '
        'cause class and line are compared with plain exec/eval of the same text. Exploration with an exhaustive finite sub-domain.',
        'Ambiguous nodes (IfExp, comprehensions, with, bare decorators) never required to be refused; in-process evaluate only.',
        'DESIGN.md section 3 C19'),
    'C20': (
        'metamorphic PBT (hostile vs benign twin skeleton) + strict well-formedness tokenizer + completeness oracle over generated values, options and controls',
        'Generated nested values whose strings, dict keys and class / field documentation contain HTML metacharacters, quotes, '
        'closing-tag fragments, comment / CDATA terminators, character references and script fragments, rendered under generated '
        'combinations of tree-view options (collapse level, tooltips, key style, summary switches, max lengths, include / exclude keys, '
        'uncollapse paths, colors, name, title); plus Label / Badge / LabelGroup / Tooltip / TabControl (both positions) / ProgressBar '
        'built with hostile strings in their data positions. Oracles: tags nested and closed against a stack; the same value with every '
        'hostile character replaced by a benign one (injectively) must yield the identical tag / attribute-name skeleton and no user '
        'string inside script/style; every key and short leaf string is present in the unescaped text or attribute values unless '
        'include/exclude options remove it; rendering leaves the value unchanged. Exploration.',
        'html.parser is the tokenizer; fields documented as "text or HTML content" of controls get benign text (markup there is by design).',
        'DESIGN.md section 3 C20'),
}

NOT_BUILT = 'check not built yet in this round (planned; see DESIGN.md section 3)'


# id -> what later strengthening rounds added to the generated domain / the observables (appended to the level text)
ADDED = {
    'C01': 'Also: one parent-less object passed for an argument and inside a later argument of a constructor; an exhaustive '
           'sub-domain of every dict call on dict-typed object fields that hold containers; a batch sub-domain on lists.',
    'C02': 'Also: nested writes through a two-key path under the three notification modes (reference un-aliased first), the '
           'stored-value identity of setdefault, and an exhaustive sub-domain of overwrites by equal-but-different values.',
    'C03': 'Also: list elements deleted by path from the root, int values for Float fields (converter path), specs with user '
           'transforms, held typed values, retry of rejected writes, schema objects unchanged by operations.',
    'C04': 'Also: user transforms on List/Tuple/Dict/Object specs (modifier and derivation), free-key derivation, and lattices of '
           'dict keys (named / defaulted / free-key fields), sized tuples, enums over ranged bases, unions with overlapping or frozen candidates.',
    'C05': 'Also: functors (specified vs defaulted arguments compared after every route), builtin functions, a class defined again '
           'under the same name, the JSON object handed to from_json left unchanged, unclosed readers, line-boundary characters.',
    'C06': 'Also: a class pair whose user-defined (symmetric) equality relates a class and its subclass, for the eq/ne negation law.',
    'C07': 'Also: functors with unspecified defaulted arguments (bookkeeping compared), shared Ref targets, DNA bound to specs, sealed-by-default classes.',
    'C09': 'Also: skip_notification / own-child / MISSING writes as op options, an exhaustive catalogue of single calls per subscription mask.',
    'C11': 'Also: float points with point / one-ulp / ordinary ranges x scales with membership decided from the definition, tree-level '
           'corruptions (extra / missing child, one more level, a value on a value-less node), and the end of a sweep being final.',
    'C12': 'Also: digit-only string and integer literal values (use_ints_as_literals where documented), permutation operator chains.',
    'C13': 'Also: user-defined (custom) and evolvable placeholders, filters that accept them, candidate objects of a class and its subclasses.',
    'C14': 'Also: the process-wide RNG perturbed between the two determinism runs, `where` filters on point-wise recombinators, floats with non-dyadic bounds.',
    'C15': 'Also: measured trials whose DNA was persisted at proposal time (late feedback), seed 0.',
    'C16': 'Also: an evolution whose population keeps every reported trial, with a population law at quiescence.',
    'C17': 'Also: the full contextual-override record (value, cascade, override_attrs) and a bound-attribute probe, function detour destinations.',
    'C18': 'Also: a container default written into through a path (binds the argument), calls under type-check off, same-call duplicates.',
    'C19': 'Also: chained assignments with non-name targets and annotations whose evaluation is observable, as last and inner statements.',
    'C20': 'Also: hostile style property names, class names and self-chosen display names (summary hook), long strings, the HTML controls library.',
}


def main():
  checks = []
  for pid in ALL:
    if pid not in CHECKS:
      continue
    tech, text, note, ref = CHECKS[pid]
    if pid in ADDED:
      text = text + ' ' + ADDED[pid]
    checks.append({
        'property_id': pid,
        'quick_cmd': './check %s quick' % pid,
        'thorough_cmd': './check %s thorough' % pid,
        'evidence_file': 'evidence/%s.json' % pid,
        'replay_cmd_template': './check %s --replay {path}' % pid,
        'engine': 'pgverif',
        'level_claimed': {'category': 'fault_enumeration' if pid == 'C15' else 'exploration', 'text': text, 'design_ref': ref},
        'level_note': note,
        'technique': tech,
    })
  manifest = {
      'version': 1,
      'setup_cmd': '/venv/bin/python -c "import hypothesis" 2>/dev/null || /venv/bin/pip install --no-index --find-links /opt/veriftools/wheels hypothesis',
      'hooks': {
          'guard': 'GOOGLE_PYGLOVE_VERIF',
          'enable': 'no source hooks: pyglove is pure Python and is imported in place from /repo (PYTHONPATH); '
                    'checks export GOOGLE_PYGLOVE_VERIF=1 but no repository code reads it',
          'baseline_off_cmd': 'cd /repo && /venv/bin/python -m pytest -ra -q -p no:cacheprovider --timeout=900 --continue-on-collection-errors',
          'source_commits': [],
          'add_only': True,
      },
      'engines': [{
          'name': 'pgverif',
          'path': 'pgverif/',
          'serves_properties': [c['property_id'] for c in checks],
          'kind_free_text': 'property-based testing: Hypothesis 6.168 generators (16 seeded shards), exhaustive '
                            'enumeration of small finite sub-domains, explicit oracles (reference models, round trips, '
                            'differential, metamorphic), collect-then-shrink to JSON replay files, signature-based known findings',
      }],
      'checks': checks,
      'not_applicable': [{'property_id': p, 'reason': NOT_BUILT} for p in ALL if p not in CHECKS],
      'notes': 'Entry point ./check <ID> <quick|thorough> | ./check <ID> --replay <file>. Exit 0 held / 1 VIOLATION / 2 harness error. '
               'Known findings: known_findings.json. Seeded property-breaking changes: seeded/.',
  }
  with open(os.path.join(ROOT, 'MANIFEST.json'), 'w') as f:
    json.dump(manifest, f, indent=1)
    f.write('\n')


if __name__ == '__main__':
  main()
