#!/bin/bash
# usage: tools/try_seeded.sh <dir with patch.diff> <PID> [tier]   -- applies to /repo, runs the check, reverts
d=$1; pid=$2; tier=${3:-quick}
cd /repo || exit 2
if ! git diff --quiet; then echo "REPO DIRTY"; exit 2; fi
if ! git apply --check "$d/patch.diff" 2>/dev/null; then echo "PATCH DOES NOT APPLY: $d"; exit 3; fi
git apply "$d/patch.diff"
( cd /verif && PGV_NO_EVIDENCE=1 ./check $pid $tier 2>&1 | grep -E "^$pid|VIOLATION|HARNESS|signature" | head -8 )
git checkout -- .
