#!/bin/bash
# usage: tools/redetect_seeded.sh <name> [...]      (name = directory under /verif/seeded, e.g. C11_8)
# Re-runs the quick check of a stored seeded change against a scratch worktree of /repo HEAD with the
# patch applied and records the outcome in seeded/<name>/meta.json ("redetect"). Nothing is written
# to /repo; the worktree is removed afterwards; no evidence is written.
cd /verif
for name in "$@"; do
  pid=${name%%_*}
  wt=/tmp/redetect_$name
  git -C /repo worktree remove --force $wt 2>/dev/null
  git -C /repo worktree add -q -f --detach $wt HEAD || { echo "$name worktree-failed"; continue; }
  if git -C $wt apply /verif/seeded/$name/patch.diff 2>/dev/null; then
    applies=true
  elif git -C $wt apply --3way /verif/seeded/$name/patch.diff 2>/dev/null && ! git -C $wt diff HEAD | grep -q '^+<<<<<<<'; then
    # the lines around the change moved (a later fix: commit): keep the change, refresh the patch
    applies=true
    git -C $wt diff HEAD > /verif/seeded/$name/patch.diff
  else
    applies=false
  fi
  if [ $applies = true ]; then
    out=$(PGV_REPO=$wt PGV_NO_EVIDENCE=1 ./check $pid quick 2>&1 | grep -E "^$pid|VIOLATION|HARNESS|signature=" | cut -c1-300 | head -8)
  else
    out=""
  fi
  git -C /repo worktree remove --force $wt
  /venv/bin/python - seeded/$name/meta.json "$applies" "$out" "$(git -C /repo log --format=%h -1)" "$(git -C /verif log --format=%h -1)" <<'PY'
import json, sys
p, applies, out, head, vhead = sys.argv[1:6]
m = json.load(open(p))
det = 'VIOLATION' in out
m['redetect'] = {'repo_head': head, 'verif_head': vhead, 'patch_applies': applies == 'true', 'detected_by_quick': det,
                 'check_quick_output': out.splitlines()}
json.dump(m, open(p, 'w'), indent=1)
print(p.split('/')[1], 'applies', applies, 'detected', det)
PY
done
