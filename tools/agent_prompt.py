#!/usr/bin/env python3
"""Prints the prompt given to an independent sub-agent that seeds a property-breaking change."""
import json, sys
pid, wt, out = sys.argv[1], sys.argv[2], sys.argv[3]
n = sys.argv[4] if len(sys.argv) > 4 else '2'
for l in open('/verif/properties.jsonl'):
    d = json.loads(l)
    if d['id'] == pid:
        break
print(f"""You are helping to evaluate a verification effort for the open-source Python library google/pyglove (a symbolic object model with runtime typing, JSON serialization, search spaces and search algorithms).

A scratch git worktree of the repository is at {wt} (branch detached; you may edit files there freely). Work ONLY inside {wt} and {out}. Do NOT read or touch /repo or /verif or any other directory outside those two (reading the Python standard library / site-packages is fine). Run Python as: cd {wt} && PYTHONPATH={wt} /venv/bin/python ...   (check with `python -c "import pyglove; print(pyglove.__file__)"` that it imports from {wt}).

Here is a semantic property the library is supposed to satisfy:

TITLE: {d['title']}
STATEMENT: {d['statement']}
QUANTIFIED OVER: {d['quantifier']['text']}
RELEVANT FILES: {', '.join(d['anchors'].get('files', []))}

Your task: produce {n} DIFFERENT, independent, realistic source changes to pyglove (each a small patch to the library code under {wt}/pyglove, not to tests) such that each change BREAKS this property while the code still imports and the existing test-suite still passes. Think of plausible regressions a maintainer could introduce: a refactoring that drops a step, an off-by-one, a missed case in one code path, a wrong condition, two cooperating sites that each look fine alone. IMPORTANT: prefer changes that need something specific to manifest - a particular multi-step sequence of operations, an unusual input shape, a specific option combination, a boundary value, a specific interleaving or crash point - NOT changes that ordinary use would expose at once (those would fail the existing tests anyway). Each change must break the property as stated (not some other behaviour).

For each change k = 1..{n}:
 1. Start from a clean tree (cd {wt} && git checkout -- . && git status). NEVER use `git stash` (the stash is shared with other worktrees of this repository and other people use it); to go back and forth use `git diff > patch.diff; git checkout -- .; ...; git apply patch.diff`.
 2. Make the change. Save it: cd {wt} && git diff > {out}/{pid}_k/patch.diff   (create the directory; replace k by the number).
 3. Write a small demonstration program {out}/{pid}_k/demo.py that exits 0 when the property holds and exits non-zero (assert failure) when it is broken; it must FAIL with your change applied and PASS on the clean tree. Run it both ways and confirm.
 4. Run the existing tests that cover the files you touched, with the change applied, and confirm they still pass: cd {wt} && PYTHONPATH={wt} /venv/bin/python -m pytest -q -p no:cacheprovider -x -n 8 <the relevant test files or directories, e.g. pyglove/core/symbolic> ; then run the full suite once: PYTHONPATH={wt} /venv/bin/python -m pytest -q -p no:cacheprovider -n 8 pyglove  (3 tests in io/file_system_test and text_color_test may fail even on a clean tree - ignore those). If any other test fails, revise the change until none does.
 5. Write {out}/{pid}_k/meta.json with keys: "property" ("{pid}"), "summary" (one sentence: what the change does), "needs" (what specific input / sequence / configuration is needed for the breakage to manifest), "files" (list of touched files), "tests_run" (the pytest command(s) you ran and their pass counts).
 6. Restore the tree: cd {wt} && git checkout -- .

Finish with the tree clean. In your final answer list, for each change, the one-sentence summary and what it needs to manifest. Do not ask questions; make reasonable decisions yourself.""")
